#!/usr/bin/env python3
"""Regenerates MANIFEST.json from checks/registry.json (keeps it valid at all times)."""
import json, os, sys
here = os.path.dirname(os.path.abspath(__file__))
reg = json.load(open(os.path.join(here, "checks", "registry.json")))
props = [json.loads(l)["id"] for l in open(os.path.join(here, "properties.jsonl"))]
checks = []
for pid in props:
    if pid not in reg["claimed"]:
        continue
    e = reg["claimed"][pid]
    checks.append({
        "property_id": pid,
        "quick_cmd": "./check %s quick" % pid,
        "thorough_cmd": "./check %s thorough" % pid,
        "evidence_file": "/verif/evidence/%s.json" % pid,
        "replay_cmd_template": "./check %s --replay {path}" % pid,
        "engine": e["engine"],
        "level_claimed": {"category": "model_checking", "text": e["text"], "design_ref": e["design_ref"]},
        "level_note": e["note"],
        "technique": e["technique"],
    })
na = [{"property_id": p, "reason": reg["not_applicable"].get(p, "check not built yet in this session; no claim is made")}
      for p in props if p not in reg["claimed"]]
man = {
    "version": 1,
    "setup_cmd": "./setup.sh",
    "hooks": {
        "guard": "MLINSIGHTS_VERIF",
        "enable": "no hook exists in /repo: all seams are harness-side (module-level names rebound by the loader, estimators passed as arguments, seeds, sys.settrace); the checks export MLINSIGHTS_VERIF=1 anyway",
        "baseline_off_cmd": "cd /repo && /venv/bin/python -m pytest -ra -q -p no:cacheprovider --timeout=900 --continue-on-collection-errors",
        "source_commits": [],
        "add_only": True,
    },
    "engines": reg["engines"],
    "checks": checks,
    "not_applicable": na,
    "notes": reg.get("notes", ""),
}
json.dump(man, open(os.path.join(here, "MANIFEST.json"), "w"), indent=1)
print("MANIFEST.json: %d checks, %d not claimed" % (len(checks), len(na)))
