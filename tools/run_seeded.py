#!/usr/bin/env python3
"""tools/run_seeded.py [name ...] [--all-checks] — apply each /verif/seeded/<name>/patch.diff to /repo, run the check of the
property it breaks (quick tier), undo, and rewrite /verif/seeded/INDEX.md. /repo is always restored."""
import json, os, subprocess, sys, time
os.environ["VERIF_EVIDENCE_DIR"] = "/tmp/verif-evidence-scratch"

args = [a for a in sys.argv[1:] if not a.startswith("--")]
root = "/verif/seeded"
names = args or sorted(d for d in os.listdir(root) if os.path.isdir(os.path.join(root, d)) and not d.startswith("_"))
rows = []
for n in names:
    d = os.path.join(root, n)
    meta = json.load(open(os.path.join(d, "meta.json")))
    prop = meta["breaks_property"]
    st = subprocess.run(["git", "-C", "/repo", "status", "--porcelain", "--untracked-files=no"], stdout=subprocess.PIPE, text=True).stdout
    assert not st.strip(), "/repo is dirty: %s" % st
    r = subprocess.run(["git", "-C", "/repo", "apply", os.path.join(d, "patch.diff")], stdout=subprocess.PIPE, stderr=subprocess.STDOUT, text=True)
    if r.returncode != 0:
        # the tree moved on since the seed was written (later fix: commits): fall back to a 3-way merge of the patch
        r = subprocess.run(["git", "-C", "/repo", "apply", "--3way", os.path.join(d, "patch.diff")], stdout=subprocess.PIPE, stderr=subprocess.STDOUT, text=True)
        subprocess.run(["git", "-C", "/repo", "reset", "-q"])
        if "with conflicts" in r.stdout:
            subprocess.run(["git", "-C", "/repo", "checkout", "--", "."])
            r.returncode = 1
    if r.returncode != 0:
        rows.append((n, prop, "patch does not apply to the current tree: %s" % r.stdout.strip()[:100], "", ""))
        print(n, "patch does not apply")
        continue
    try:
        checks = [prop] + [c for c in meta.get("also_run", []) if c != prop]
        res = []
        for c in checks:
            t = time.time()
            p = subprocess.run(["/verif/check", c, "quick"], stdout=subprocess.PIPE, stderr=subprocess.STDOUT, text=True)
            sigs = [l.strip()[len("signature: "):] for l in p.stdout.splitlines() if l.strip().startswith("signature:")]
            res.append((c, p.returncode, sigs, time.time() - t))
            print(n, c, "DETECTED" if p.returncode == 1 else "MISSED rc=%d" % p.returncode, sigs[:2])
    finally:
        subprocess.run(["git", "-C", "/repo", "checkout", "--", "."])
    meta["detection"] = [{"check": c, "tier": "quick", "detected": rc == 1, "exit": rc, "signatures": sigs[:6], "wall_s": round(w, 1)} for c, rc, sigs, w in res]
    json.dump(meta, open(os.path.join(d, "meta.json"), "w"), indent=1)
# index over ALL seeded dirs
lines = ["# Seeded property-breaking changes", "",
         "Each directory holds `patch.diff` (against the /repo commit in meta.json), `demo.py` (exits 1 with the change, 0 without; "
         "run with MLINSIGHTS_REPO=<tree>), `meta.json`. Detection = `./check <property> quick` with the patch applied to /repo.", "",
         "| seed | breaks | detected by (quick) | first signature |", "|---|---|---|---|"]
for n in sorted(d for d in os.listdir(root) if os.path.isdir(os.path.join(root, d)) and not d.startswith("_")):
    m = json.load(open(os.path.join(root, n, "meta.json")))
    det = m.get("detection", [])
    by = ", ".join(x["check"] for x in det if x["detected"]) or "**missed**"
    sig = next((x["signatures"][0] for x in det if x["detected"] and x["signatures"]), "")
    lines.append("| %s | %s | %s | `%s` |" % (n, m["breaks_property"], by, sig[:120]))
open(os.path.join(root, "INDEX.md"), "w").write("\n".join(lines) + "\n")
print(open(os.path.join(root, "INDEX.md")).read())
