#!/usr/bin/env python3
"""tools/reg.py Cnn 'technique' 'text' 'note' — add/replace a registry entry and regenerate MANIFEST.json"""
import json, sys, subprocess
pid, tech, text, note = sys.argv[1:5]
p = "/verif/checks/registry.json"
r = json.load(open(p))
r["claimed"][pid] = {"engine": "mcheck.core", "design_ref": "DESIGN.md section 4 %s" % pid, "technique": tech, "text": text, "note": note}
json.dump(r, open(p, "w"), indent=1)
subprocess.check_call(["python3", "/verif/gen_manifest.py"])
