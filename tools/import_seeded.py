#!/usr/bin/env python3
"""tools/import_seeded.py <PROP> <seed-name> [worktree] [outdir]
Confirms a sub-agent's seeded change in its scratch worktree (demo fails with it, passes without it, pinned tests
pass with it), copies it to /verif/seeded/<seed-name>/ and runs the property's check against /repo with the patch applied
(always undone afterwards)."""
import json, os, shutil, subprocess, sys, time

prop, name = sys.argv[1], sys.argv[2]
wt = sys.argv[3] if len(sys.argv) > 3 else "/tmp/wt/%s" % prop
out = sys.argv[4] if len(sys.argv) > 4 else "/tmp/seeded_out/%s" % prop
env = dict(os.environ, MLINSIGHTS_REPO=wt, OMP_NUM_THREADS="1", PYTHONDONTWRITEBYTECODE="1")


def sh(cmd, **kw):
    return subprocess.run(cmd, stdout=subprocess.PIPE, stderr=subprocess.STDOUT, text=True, **kw)


def demo():
    r = sh(["/venv/bin/python", "-W", "ignore", os.path.join(out, "demo.py")], env=env, timeout=900)
    return r.returncode, r.stdout[-600:]


patch = sh(["git", "-C", wt, "diff"]).stdout
assert patch.strip(), "no change in the worktree"
ran = {}
rc1, o1 = demo()
ran["demo with the change"] = "exit %d: %s" % (rc1, o1.strip().splitlines()[-1] if o1.strip() else "")
open("/tmp/_seed_%s.patch" % prop, "w").write(patch)
sh(["git", "-C", wt, "checkout", "--", "."])
try:
    rc0, o0 = demo()
finally:
    r = sh(["git", "-C", wt, "apply", "/tmp/_seed_%s.patch" % prop])
    assert r.returncode == 0, r.stdout
ran["demo without the change"] = "exit %d: %s" % (rc0, o0.strip().splitlines()[-1] if o0.strip() else "")
t = sh(["/venv/bin/python", "-m", "pytest", "-q", "-p", "no:cacheprovider", "_unittests/ut_helpers", "_unittests/ut_metrics",
        "_unittests/ut_plotting", "_unittests/ut_sklapi"], cwd=wt, timeout=1800)
ran["pinned tests with the change"] = t.stdout.strip().splitlines()[-1]
ok = rc1 != 0 and rc0 == 0 and " 46 passed" in (" " + ran["pinned tests with the change"])
print(json.dumps(ran, indent=1))
if not ok:
    print("NOT CONFIRMED")
    sys.exit(1)
dst = "/verif/seeded/%s" % name
os.makedirs(dst, exist_ok=True)
open(os.path.join(dst, "patch.diff"), "w").write(patch)
shutil.copy(os.path.join(out, "demo.py"), os.path.join(dst, "demo.py"))
notes = open(os.path.join(out, "notes.txt")).read() if os.path.exists(os.path.join(out, "notes.txt")) else ""
meta = {"breaks_property": prop, "source": "independent sub-agent given only the property text and a scratch worktree",
        "needs_to_manifest": notes.strip()[:1500], "confirmed": ran, "base_commit": sh(["git", "-C", wt, "rev-parse", "HEAD"]).stdout.strip()}
json.dump(meta, open(os.path.join(dst, "meta.json"), "w"), indent=1)
print("imported to", dst)
