#!/usr/bin/env python3
"""tools/silence.py [tier] [seed ...] — run every registered check on the unchanged tree, from fresh processes, and print a
matrix of exit codes / wall times. Exit 0 only if every run exits 0 and prints no VIOLATION line."""
import json, os, subprocess, sys, time
tier = sys.argv[1] if len(sys.argv) > 1 else "quick"
seeds = [int(s) for s in sys.argv[2:]] or [0]
man = json.load(open("/verif/MANIFEST.json"))
bad = 0
for seed in seeds:
    for c in man["checks"]:
        pid = c["property_id"]
        t = time.time()
        env = dict(os.environ, VERIF_SEED=str(seed))
        p = subprocess.run(["/verif/check", pid, tier], stdout=subprocess.PIPE, stderr=subprocess.STDOUT, text=True, env=env)
        viol = [l for l in p.stdout.splitlines() if l.startswith("VIOLATION") or l.startswith("HARNESS")]
        known = sum(1 for l in p.stdout.splitlines() if l.startswith("KNOWN-FINDING"))
        ok = p.returncode == 0 and not viol
        bad += 0 if ok else 1
        print("seed=%-6d %s %s rc=%d known=%d wall=%5.1fs %s" % (seed, pid, "ok  " if ok else "FAIL", p.returncode, known, time.time() - t,
                                                                 viol[0][:120] if viol else ""), flush=True)
sys.exit(1 if bad else 0)
