#!/usr/bin/env python3
"""tools/mutate.py <relpath> <old> <new> <Cnn>[,Cmm] [tier]  — apply a one-off textual mutation to /repo,
run the checks, and ALWAYS restore the file. Prints DETECTED/MISSED per check."""
import subprocess, sys, os
os.environ["VERIF_EVIDENCE_DIR"] = "/tmp/verif-evidence-scratch"
rel, old, new, ids = sys.argv[1:5]
tier = sys.argv[5] if len(sys.argv) > 5 else "quick"
path = os.path.join("/repo", rel)
src = open(path).read()
if src.count(old) != 1:
    print("pattern occurs %d times" % src.count(old)); sys.exit(2)
try:
    open(path, "w").write(src.replace(old, new))
    for pid in ids.split(","):
        r = subprocess.run(["/verif/check", pid, tier], stdout=subprocess.PIPE, stderr=subprocess.STDOUT, text=True)
        tail = [l for l in r.stdout.splitlines() if l.startswith(("VIOLATION", "  signature", "HARNESS", pid))]
        print("%s: %s rc=%d" % (pid, "DETECTED" if r.returncode == 1 else "MISSED", r.returncode))
        print("\n".join("    " + l[:200] for l in tail[:8]))
finally:
    open(path, "w").write(src)
    subprocess.run(["git", "-C", "/repo", "status", "--short"])
