#!/bin/sh
# Offline setup: compile the Cython extensions of /repo's working tree into the cache and run the canaries.
cd "$(dirname "$0")" || exit 2
export OMP_NUM_THREADS=1 OPENBLAS_NUM_THREADS=1 MKL_NUM_THREADS=1 PYTHONDONTWRITEBYTECODE=1
/venv/bin/python -W ignore -m mcheck.loader || exit 1
if [ -f mcheck/canaries.py ]; then /venv/bin/python -W ignore -m mcheck.canaries || exit 1; fi
exit 0
