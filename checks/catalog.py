"""Catalogue of exported estimators (configurations, training sets, observation functions) and the
canonical forms shared by the history-explorer checks C01, C02, C03, C04."""
import hashlib


def _np():
    import numpy
    return numpy


# --------------------------------------------------------------------------- canonical forms
def canon(v, depth=0):
    numpy = _np()
    if depth > 6:
        return "<deep>"
    if hasattr(v, "verif_canon"):
        return v.verif_canon
    if v is None or isinstance(v, (bool, int, str)):
        return v
    if isinstance(v, float):
        return repr(v)
    if isinstance(v, numpy.generic):
        return canon(v.item(), depth)
    if isinstance(v, numpy.ndarray):
        if v.dtype == object:
            return ["ndobj"] + [canon(x, depth + 1) for x in v.ravel().tolist()]
        return ["nd", str(v.dtype), list(v.shape), hashlib.sha1(numpy.ascontiguousarray(v).tobytes()).hexdigest()[:12]]
    if isinstance(v, (list, tuple)):
        return [canon(x, depth + 1) for x in v]
    if isinstance(v, (set, frozenset)):
        return ["set"] + sorted((canon(x, depth + 1) for x in v), key=repr)
    if isinstance(v, dict):
        return {"dict": sorted(([canon(k, depth + 1), canon(x, depth + 1)] for k, x in v.items()), key=repr)}
    if isinstance(v, type):
        return ["type", v.__module__ + "." + v.__qualname__]
    if hasattr(v, "get_params") and not isinstance(v, type):
        try:
            p = v.get_params(deep=False)
        except Exception as e:  # noqa
            p = {"<get_params raises>": type(e).__name__}
        return {"est": type(v).__module__.split(".")[0] + "." + type(v).__qualname__,
                "params": {k: canon(x, depth + 1) for k, x in sorted(p.items())}}
    if callable(v):
        slf = getattr(v, "__self__", None)
        name = getattr(v, "__qualname__", getattr(v, "__name__", type(v).__name__))
        return ["callable", name, type(slf).__qualname__ if slf is not None and not isinstance(slf, type(numpy)) else None]
    if hasattr(v, "__dict__"):
        return {"obj": type(v).__qualname__, "vars": {k: canon(x, depth + 1) for k, x in sorted(vars(v).items())}}
    return ["repr", repr(v)]


def is_est(v):
    return hasattr(v, "get_params") and hasattr(v, "set_params") and not isinstance(v, type)


def flat_params(est):
    """get_params(deep=True) with estimator values replaced by their class (their content is in the nested keys)."""
    out = {}
    for k, v in est.get_params(deep=True).items():
        if is_est(v):
            out[k] = ["EST", type(v).__qualname__]
        elif isinstance(v, (list, tuple)) and v and all(is_est(x) or (isinstance(x, tuple) and any(is_est(y) for y in x)) for x in v):
            out[k] = ["ESTLIST"] + [type(x).__qualname__ if is_est(x) else canon(x) for x in v]
        else:
            out[k] = canon(v)
    return out


def nested_ids(est, seen=None):
    """ids of every estimator object reachable through parameters."""
    seen = {} if seen is None else seen
    try:
        p = est.get_params(deep=False)
    except Exception:
        return seen
    for k, v in p.items():
        vs = v if isinstance(v, (list, tuple)) else [v]
        for x in vs:
            if is_est(x) and id(x) not in seen:
                seen[id(x)] = k
                nested_ids(x, seen)
    return seen


def state_canon(est):
    d = {k: canon(v) for k, v in sorted(vars(est).items())}
    return {"cls": type(est).__qualname__, "vars": d}


def digest(o):
    import json
    return hashlib.sha1(json.dumps(o, sort_keys=True, default=str).encode()).hexdigest()[:16]


# --------------------------------------------------------------------------- data
def data(kind, which=0):
    """Training sets. `which` selects among sets differing in n, d, label set, range."""
    numpy = _np()
    if kind in ("reg", "clf", "cluster", "poly", "nmf", "recip"):
        n, d = [(12, 2), (8, 1), (12, 2), (10, 3), (9, 2)][which % 5]
        X = numpy.array([[((i * 7 + 3 * j * j + which) % 11) / 2.0 + 0.25 * j for j in range(d)] for i in range(n)],
                        dtype=numpy.float64)
        if kind == "nmf":
            X = numpy.abs(X) + 0.5
            if d == 1:
                X = numpy.hstack([X, X[::-1] + 1.0])
            return {"X": X}
        if kind in ("cluster", "poly"):
            return {"X": X}
        s = X.sum(axis=1)
        if kind == "reg":
            y = 1.0 + 0.5 * s + ((numpy.arange(n) * 5 + which) % 7) * 0.3
            return {"X": X, "y": y}
        if kind == "recip":
            nlab = [4, 3, 4, 2, 5][which % 5]
            y = [1.0, 10.0, 1.0, 0.5, 3.0][which % 5] + ((numpy.arange(n) * 5 + which) % nlab) * [0.5, 10.0, 1.5, 1.0, 0.25][which % 5]
            return {"X": X, "y": y}
        labs = [(0, 1), (0, 1), (3, 7), (0, 1, 2), (0, 1)][which % 5]
        order = numpy.argsort(numpy.argsort(s + 0.01 * numpy.arange(n)))
        # not linearly separable: blocks of 3 consecutive ranks of the row sum alternate between the classes
        y = numpy.array([labs[(r // 3) % len(labs)] for r in order])
        return {"X": X, "y": y}
    if kind == "cat":
        import pandas
        rows = [["x", "u", 1.5], ["y", "v", 2.5], ["z", "u", 0.5], ["x", None, 4.0], ["y", "u", 1.0]]
        if which % 2:
            rows = [["p", "u", 1.5], ["q", "w", 2.5], ["p", "w", 3.5]]
        df = pandas.DataFrame({"A": pandas.Series([r[0] for r in rows], dtype=object),
                               "B": pandas.Series([r[1] for r in rows], dtype=object),
                               "num": [r[2] for r in rows]})
        if which == 2:
            # other categorical columns than the first frame: A is numeric here, C is new, B is gone
            df = pandas.DataFrame({"A": [1.0, 2.0, 3.0, 4.0],
                                   "C": pandas.Series(["k", "l", "k", "m"], dtype=object),
                                   "num": [0.5, 1.5, 2.5, 3.5]})
        return {"X": df}
    if kind == "text":
        c = [["the cat sat", "a cat and a dog", "dog the dog", ""], ["blue sky", "green grass blue", "sky"]][which % 2]
        return {"X": c}
    if kind == "ts":
        n = [10, 7, 12][which % 3]
        y = numpy.array([((t * t * 3 + t + which) % 7) * 1.0 for t in range(n)])
        return {"X": None, "y": y}
    raise KeyError(kind)


def data_large(kind, n=3500):
    """A training set beyond the sizes of `data`: thousands of rows without structure (fixed generator, not part of the
    explored nondeterminism). Block-size / sub-sampling thresholds inside the estimators only exist at such sizes."""
    numpy = _np()
    rs = numpy.random.RandomState(20240517)
    d = 2
    X = numpy.round(rs.uniform(-3, 3, size=(n, d)), 3)
    if kind == "nmf":
        return {"X": numpy.abs(X) + 0.5}
    if kind in ("cluster", "poly"):
        return {"X": X}
    if kind == "reg":
        return {"X": X, "y": numpy.round(1.0 + X.sum(axis=1) + rs.normal(size=n), 3)}
    if kind == "recip":
        return {"X": X, "y": 1.0 + rs.randint(0, 5, size=n) * 0.5}
    if kind == "clf":
        return {"X": X, "y": ((X[:, 0] * X[:, 1] > 0) ^ (rs.uniform(size=n) < 0.2)).astype(int)}
    raise KeyError(kind)


def probes(kind, dat):
    numpy = _np()
    if kind in ("cat", "text"):
        return dat["X"]
    if kind == "ts":
        return None
    X = dat["X"]
    lo, hi = X.min(axis=0), X.max(axis=0)
    extra = numpy.array([lo - 1.0, hi + 1.0, (lo + hi) / 2, lo + 0.3 * (hi - lo)])
    return numpy.vstack([X[:5], extra, X[2:3]])


# --------------------------------------------------------------------------- catalogue
def _imports():
    import numpy
    from sklearn.linear_model import LinearRegression, LogisticRegression
    from sklearn.tree import DecisionTreeRegressor, DecisionTreeClassifier
    from sklearn.dummy import DummyRegressor
    from sklearn.cluster import KMeans
    from sklearn.preprocessing import StandardScaler, KBinsDiscretizer
    import mlinsights.mlmodel as M
    import mlinsights.sklapi as S
    from mlinsights.timeseries.ar import ARTimeSeriesRegressor
    from mlinsights.timeseries.dummies import DummyTimeSeriesRegressor
    return locals()


def _fitted(est, kind):
    d = data(kind, 0)
    _np().random.seed(0)
    return est.fit(d["X"], d.get("y")) if "y" in d else est.fit(d["X"])


def _knr1():
    from sklearn.neighbors import KNeighborsRegressor
    return KNeighborsRegressor(n_neighbors=1)


def catalogue():
    """name -> dict(kind, variants: {vname: factory}, fit: bool, strs: {param: alternatives})"""
    g = _imports()
    numpy = g["numpy"]
    M, S = g["M"], g["S"]
    LinR, LogR = g["LinearRegression"], g["LogisticRegression"]
    DTR, DTC = g["DecisionTreeRegressor"], g["DecisionTreeClassifier"]
    KMeans, SS = g["KMeans"], g["StandardScaler"]
    C = {}

    def add(name, kind, variants, fit=True, strs=None, skip=(), prefix=None, given=None):
        C[name] = {"kind": kind, "variants": variants, "fit": fit, "strs": strs or {}, "skip": set(skip),
                   "prefix": prefix or {}, "given": given or {}}

    add("QuantileLinearRegression", "reg", {
        "A": lambda: M.QuantileLinearRegression(quantile=0.3, max_iter=30),
        "B": lambda: M.QuantileLinearRegression(quantile=0.7, fit_intercept=False, delta=0.001, max_iter=20)})
    C["QuantileLinearRegression"]["given"] = {"A": dict(quantile=0.3, max_iter=30),
                                             "B": dict(quantile=0.7, fit_intercept=False, delta=0.001, max_iter=20)}
    add("KMeansL1L2", "cluster", {
        "A": lambda: M.KMeansL1L2(n_clusters=2, norm="L1", random_state=0, n_init=2),
        "B": lambda: M.KMeansL1L2(n_clusters=3, norm="L2", random_state=1, n_init=1, init="random"),
        "C": lambda: M.KMeansL1L2(n_clusters=2, norm="L1", random_state=0, n_init=3,
                                  init=numpy.array(data("cluster", 0)["X"][[0, 5]], copy=True))},
        strs={"norm": ["L1", "L2"], "init": ["k-means++", "random"]})
    add("ConstraintKMeans", "cluster", {
        "A": lambda: M.ConstraintKMeans(n_clusters=2, strategy="distance", random_state=0, n_init=2, max_iter=20),
        "B": lambda: M.ConstraintKMeans(n_clusters=3, strategy="gain", kmeans0=False, random_state=1,
                                        max_iter=10, n_init=2),
        "C": lambda: M.ConstraintKMeans(n_clusters=3, strategy="gain", random_state=2, max_iter=10, n_init=1),
        "D": lambda: M.ConstraintKMeans(n_clusters=3, strategy="weights", random_state=0, n_init=2, max_iter=20)},
        strs={"strategy": ["distance", "gain"], "init": ["k-means++", "random"]})
    add("PiecewiseRegressor", "reg", {
        "A": lambda: M.PiecewiseRegressor("tree"),
        "B": lambda: M.PiecewiseRegressor(binner="bins", estimator=g["DummyRegressor"]()),
        "C": lambda: M.PiecewiseRegressor(binner=DTR(max_depth=2), estimator=LinR(fit_intercept=False), n_jobs=2),
        "D": lambda: M.PiecewiseRegressor(binner="bins")})
    add("PiecewiseClassifier", "clf", {
        "A": lambda: M.PiecewiseClassifier(binner=DTC(min_samples_leaf=3), random_state=0),
        "B": lambda: M.PiecewiseClassifier(binner=DTC(max_depth=1), estimator=DTC(max_depth=2), random_state=1),
        "C": lambda: M.PiecewiseClassifier(binner=DTC(max_depth=2, random_state=0), estimator=DTC(max_depth=2, random_state=0),
                                           random_state=0)})
    add("PiecewiseTreeRegressor", "reg", {
        "A": lambda: M.PiecewiseTreeRegressor(criterion="mselin", max_depth=2),
        "B": lambda: M.PiecewiseTreeRegressor(criterion="simple", min_samples_leaf=2),
        "C": lambda: M.PiecewiseTreeRegressor(criterion="mselin", max_depth=3, random_state=0)},
        strs={"criterion": ["mselin", "simple"]})
    add("DecisionTreeLogisticRegression", "clf", {
        "A": lambda: M.DecisionTreeLogisticRegression(max_depth=3),
        "B": lambda: M.DecisionTreeLogisticRegression(estimator=DTC(max_depth=1), fit_improve_algo="none", max_depth=2),
        "C": lambda: M.DecisionTreeLogisticRegression(max_depth=4, min_samples_leaf=1, fit_improve_algo="intercept_sort_always")},
        strs={"fit_improve_algo": [None, "auto", "none", "intercept_sort"], "strategy": ["parallel"]})
    add("IntervalRegressor", "reg", {
        "A": lambda: M.IntervalRegressor(LinR(), n_estimators=3),
        "B": lambda: M.IntervalRegressor(DTR(max_depth=2), n_estimators=2, alpha=0.5)})
    add("ExtendedFeatures", "poly", {
        "A": lambda: M.ExtendedFeatures(poly_degree=2),
        "B": lambda: M.ExtendedFeatures(kind="poly-slow", poly_degree=3, poly_interaction_only=True, poly_include_bias=False)},
        strs={"kind": ["poly", "poly-slow"]})
    add("ClassifierAfterKMeans", "clf", {
        "A": lambda: M.ClassifierAfterKMeans(),
        "B": lambda: M.ClassifierAfterKMeans(estimator=DTC(max_depth=2), clus=KMeans(n_clusters=3, n_init=2, random_state=0)),
        "C": lambda: M.ClassifierAfterKMeans(c_n_clusters=3, c_n_init=2, c_random_state=0, e_C=0.5)},
        prefix={"clus": "c_", "estimator": "e_"})
    add("ApproximateNMFPredictor", "nmf", {
        "A": lambda: M.ApproximateNMFPredictor(n_components=2, random_state=0),
        "B": lambda: M.ApproximateNMFPredictor(n_components=1, force_positive=True, max_iter=300, random_state=1)},
        strs={"init": ["random", "nndsvd"]})
    add("CategoriesToIntegers", "cat", {
        "A": lambda: M.CategoriesToIntegers(columns=["A", "B"]),
        "B": lambda: M.CategoriesToIntegers(columns=["A"], single=True, skip_errors=True),
        "C": lambda: M.CategoriesToIntegers(columns="A"),
        "D": lambda: M.CategoriesToIntegers()})
    for nm in ("TraceableCountVectorizer", "TraceableTfidfVectorizer"):
        add(nm, "text", {
            "A": (lambda nm=nm: getattr(M, nm)()),
            "B": (lambda nm=nm: getattr(M, nm)(ngram_range=(1, 2), stop_words=["the"], binary=True))},
            strs={"analyzer": ["word"], "decode_error": ["strict", "ignore"]})
    add("FunctionReciprocalTransformer", "recip", {
        "A": lambda: M.FunctionReciprocalTransformer("log"),
        "B": lambda: M.FunctionReciprocalTransformer("exp"),
        "C": lambda: M.FunctionReciprocalTransformer(numpy.sqrt, numpy.square)},
        strs={"fct": ["log", "exp", "log1p"]})
    add("PermutationReciprocalTransformer", "recip", {
        "A": lambda: M.PermutationReciprocalTransformer(random_state=0),
        "B": lambda: M.PermutationReciprocalTransformer(random_state=1, closest=True)})
    add("TransformedTargetRegressor2", "reg", {
        "A": lambda: M.TransformedTargetRegressor2(LinR(), "log"),
        "B": lambda: M.TransformedTargetRegressor2(DTR(max_depth=2), M.FunctionReciprocalTransformer("exp")),
        # every accepted form of the transformer argument: alias string, function transformer instance, permutation instance
        "C": lambda: M.TransformedTargetRegressor2(_knr1(), M.PermutationReciprocalTransformer(random_state=1)),   # 1-NN: every prediction is the code of a training target (closest=False refuses anything else)
        "D": lambda: M.TransformedTargetRegressor2(LinR(), "permute")},
        strs={"transformer": ["log", "log1p"]})
    add("TransformedTargetClassifier2", "clf", {
        "A": lambda: M.TransformedTargetClassifier2(LogR(), "permute"),
        "B": lambda: M.TransformedTargetClassifier2(DTC(max_depth=2), M.PermutationReciprocalTransformer(random_state=1))})
    add("TransferTransformer", "clf", {
        "A": lambda: M.TransferTransformer(_fitted(SS(), "clf")),
        "B": lambda: M.TransferTransformer(_fitted(LogR(), "clf"), method="predict_proba", copy_estimator=False),
        "C": lambda: M.TransferTransformer(_fitted(DTC(max_depth=2), "clf"), trainable=True)},
        strs={"method": ["predict", "predict_proba"]})
    add("PredictableTSNE", "cluster", {
        "A": lambda: M.PredictableTSNE(),
        "B": lambda: M.PredictableTSNE(normalizer=SS(), estimator=LinR(), keep_tsne_outputs=True)}, fit=False)
    add("QuantileMLPRegressor", "reg", {
        "A": lambda: M.QuantileMLPRegressor(),
        "B": lambda: M.QuantileMLPRegressor(hidden_layer_sizes=(5,), alpha=0.01, max_iter=50)}, fit=False,
        strs={"activation": ["relu", "tanh"], "solver": ["adam", "sgd"], "learning_rate": ["constant", "adaptive"]})
    add("SkBaseTransformLearner", "clf", {
        "A": lambda: S.SkBaseTransformLearner(LinR(), "predict"),
        "B": lambda: S.SkBaseTransformLearner(LogR(), "predict_proba"),
        "C": lambda: S.SkBaseTransformLearner(SS(), "transform"),
        "D": lambda: S.SkBaseTransformLearner(DTC(max_depth=2)),
        "E": lambda: S.SkBaseTransformLearner(LinR(), "predict", tag="t", level=2, ratio=0.5, on=True),
        # free keyword parameters holding containers
        "F": lambda: S.SkBaseTransformLearner(LinR(), "predict", grid=[0, 1], shape=(2, 3), opts={"a": 1, "b": 2}, nothing=None)},
        strs={"method": ["predict"]}, given={"E": dict(tag="t", level=2, ratio=0.5, on=True, method="predict"),
                                             "F": dict(grid=[0, 1], shape=(2, 3), opts={"a": 1, "b": 2}, nothing=None, method="predict")})
    add("SkBaseTransformStacking", "clf", {
        "A": lambda: S.SkBaseTransformStacking([LinR(), DTR(max_depth=2)], "predict"),
        "B": lambda: S.SkBaseTransformStacking([LogR(), DTC(max_depth=2)], "predict_proba"),
        "C": lambda: S.SkBaseTransformStacking([LinR(fit_intercept=bool(i % 2)) for i in range(11)], "predict"),
        "D": lambda: S.SkBaseTransformStacking([LinR(), DTR(max_depth=1)], "predict", tag="t", level=2)},
        strs={"method": ["predict"]}, given={"D": dict(tag="t", level=2, method="predict")})
    for nm in ("SkBaseLearner", "SkBaseRegressor", "SkBaseClassifier"):
        kwA = dict(alpha=1, name="x", beta=0.5, flag=True, size=3)
        kwB = dict(alpha=2, name="y", beta=1.5, flag=False, size=4)
        add(nm, "reg", {
            "A": (lambda nm=nm, kw=kwA: getattr(S, nm)(**kw)),
            "B": (lambda nm=nm, kw=kwB: getattr(S, nm)(**kw))}, fit=False, strs={"name": ["x", "y", "z"]},
            given={"A": kwA, "B": kwB})
    add("ARTimeSeriesRegressor", "ts", {
        "A": lambda: g["ARTimeSeriesRegressor"]("dummy", past=2),
        "B": lambda: g["ARTimeSeriesRegressor"]("dummy", past=3, delay2=3)}, fit=False,
        skip=["delay1", "delay2", "estimator__delay1", "estimator__delay2"])
    add("DummyTimeSeriesRegressor", "ts", {
        "A": lambda: g["DummyTimeSeriesRegressor"](past=2),
        "B": lambda: g["DummyTimeSeriesRegressor"](past=3)}, skip=["delay1", "delay2"])
    return C


# --------------------------------------------------------------------------- fit / observe
def _own(v):
    """A private copy of caller data: an estimator configured with copy_X=False may legitimately overwrite it."""
    numpy = _np()
    if isinstance(v, numpy.ndarray):
        return numpy.array(v, copy=True)
    if hasattr(v, "copy") and hasattr(v, "columns"):
        return v.copy(deep=True)
    if isinstance(v, list):
        return list(v)
    return v


def fit(est, kind, dat, w=None):
    X, y = _own(dat.get("X")), _own(dat.get("y"))
    if kind == "ts":
        return est.fit(X, y)
    if "y" in dat:
        if w is not None:
            return est.fit(X, y, sample_weight=_own(w))
        return est.fit(X, y)
    return est.fit(X)


def fit_raw(est, kind, dat, w=None):
    """fit on the arrays as given (no private copy): used to present a chosen memory layout to the estimator."""
    if "y" in dat:
        return est.fit(dat["X"], dat["y"]) if w is None else est.fit(dat["X"], dat["y"], sample_weight=w)
    return est.fit(dat["X"])


def observe(est, kind, dat, P=None):
    """Outputs of every public prediction method on the probe set + documented fitted attributes."""
    numpy = _np()
    out = {}
    P = probes(kind, dat) if P is None else P
    if kind == "ts":
        out["predict"] = numpy.asarray(est.predict(dat["X"], dat["y"]), dtype=float)
        return out
    if kind == "recip":
        yy = dat["y"][:len(P)] if len(dat["y"]) >= len(P) else numpy.resize(dat["y"], len(P))
        _, yt = est.transform(P, yy)
        out["transform_y"] = numpy.asarray(yt, dtype=float)
        if getattr(est, "closest", False):
            # values that are not training targets: resolved through the nearest known target
            _, yt2 = est.transform(P, yy + 0.2)
            out["transform_y_closest"] = numpy.asarray(yt2, dtype=float)
        return out
    for meth in ("predict", "predict_proba", "transform"):
        if hasattr(est, meth):
            try:
                r = getattr(est, meth)(P)
            except (AttributeError, NotImplementedError):
                continue
            if hasattr(r, "toarray"):
                r = r.toarray()
            if hasattr(r, "values") and hasattr(r, "columns"):
                out[meth + ".columns"] = [str(c) for c in r.columns]
                r = r.values
            r = numpy.asarray(r)
            out[meth] = r.astype(float) if r.dtype.kind in "fiub" else r.astype(str)
    for att in ("labels_", "cluster_centers_", "betas_", "vocabulary_", "coef_", "intercept_", "classes_", "n_iter_",
                "inertia_", "n_output_features_"):
        if hasattr(est, att):
            try:
                v = getattr(est, att)
            except Exception:
                continue
            if isinstance(v, dict):
                out[att] = sorted((str(k), int(x)) for k, x in v.items())
            elif isinstance(v, (list, tuple)) or hasattr(v, "shape"):
                a = numpy.asarray(v)
                out[att] = a.astype(float) if a.dtype.kind in "fiub" else a.astype(str)
            elif v is not None:
                out[att] = v
    return out


def same_obs(a, b, exact=False, rtol=1e-9, atol=1e-12):
    """Returns None if equal else a description."""
    numpy = _np()
    if set(a) != set(b):
        return "outputs %r vs %r" % (sorted(a), sorted(b))
    for k in sorted(a):
        x, y = a[k], b[k]
        if isinstance(x, numpy.ndarray) or isinstance(y, numpy.ndarray):
            x, y = numpy.asarray(x), numpy.asarray(y)
            if x.shape != y.shape:
                return "%s shape %r vs %r" % (k, x.shape, y.shape)
            if x.dtype.kind in "fiub" and y.dtype.kind in "fiub":
                ok = numpy.array_equal(x, y, equal_nan=True) if exact else numpy.allclose(x, y, rtol=rtol, atol=atol, equal_nan=True)
            else:
                ok = numpy.array_equal(x, y)
            if not ok:
                return "%s differs: %s vs %s" % (k, numpy.array2string(x.ravel()[:6], precision=6), numpy.array2string(y.ravel()[:6], precision=6))
        elif x != y:
            if isinstance(x, float) and isinstance(y, float) and not exact and abs(x - y) <= atol + rtol * abs(y):
                continue
            return "%s differs: %r vs %r" % (k, x, y)
    return None


def layouts(a, names=None):
    """Memory-layout alphabet: the same values (same dtype, same shape) behind different strides / flags.
    Every estimator and function is specified on *values*; results must not depend on the entry.
    Neighbouring memory of the non-contiguous views holds a filler value distinct from the data, so a routine that
    walks the buffer instead of the view reads foreign numbers."""
    numpy = _np()
    a = numpy.ascontiguousarray(a)
    out = [("C", a)]
    fill = numpy.array(-777).astype(a.dtype) if a.dtype.kind in "iuf" else None
    if a.dtype.kind not in "iufb":
        return out
    if a.ndim == 1:
        n = len(a)
        t = numpy.full((n, 3), fill, dtype=a.dtype)
        t[:, 0] = a
        out.append(("column of a C-ordered table", t[:, 0]))
        b = numpy.full(2 * n + 1, fill, dtype=a.dtype)
        b[1::2] = a
        out.append(("every second element", b[1::2]))
        out.append(("negative stride", a[::-1].copy()[::-1]))
    elif a.ndim == 2:
        n, m = a.shape
        out.append(("Fortran order", numpy.asfortranarray(a)))
        big = numpy.full((2 * n + 1, 2 * m + 1), fill, dtype=a.dtype)
        big[1::2, 1::2] = a
        out.append(("strided window of a larger table", big[1::2, 1::2]))
        out.append(("negative strides", a[::-1, ::-1].copy()[::-1, ::-1]))
        big2 = numpy.full((m, n + 2), fill, dtype=a.dtype)
        big2[:, 1:-1] = a.T
        out.append(("transposed window", big2[:, 1:-1].T))
    ro = a.copy()
    ro.setflags(write=False)
    out.append(("read-only", ro))
    for nm, v in out:
        assert v.shape == a.shape and v.dtype == a.dtype and numpy.array_equal(v, a, equal_nan=a.dtype.kind == "f")
    if names is not None:
        out = [(nm, v) for nm, v in out if nm in names]
    return out
