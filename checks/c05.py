"""C05 — QuantileLinearRegression fits, and scores with, the pinball loss (input explorer, exact LP oracle).

x = 0..n-1 (d=1) and a 2-D general-position design; y in {0,1,2,3}^n plus a fixed tiny distinct jitter
(continuous noise: no exact ties); q in a menu; fit_intercept/positive; integer weights.
Oracle: the exact optimum by brute force over LP vertices (an optimal hyperplane interpolates as many
points as it has free coefficients; with positive=True some coefficients sit at 0).
"""
import itertools

PROPERTY = "C05"
RULE = ("every y in {0,1,2,3}^n (+ fixed jitter) on the designs x quantile menu x fit_intercept x positive x a "
        "weights menu; max_iter=1000 so that 'up to the IRLS tolerance' is about the fixed point. non-trivial = "
        "targets not all equal and q != 0.5 or weights present")
ASSUMPTIONS = ["targets carry a fixed distinct jitter (the property quantifies over continuous noise)",
               "IRLS tolerance: pinball loss within n*delta*max(weight) of the exact LP optimum",
               "the fraction-below clause is checked with fit_intercept=True (it is a consequence of the free intercept)"]

QS = (0.1, 0.25, 0.5, 0.75, 0.9)
JIT = [0.0031622776, 0.0017320508, 0.0022360679, 0.0026457513, 0.0033166247, 0.0036055512, 0.0041231056, 0.0014142135]


def bounds(tier):
    if tier == "quick":
        return {"d1": "n=4: y in {0,1,3}^4 x all quantiles; n=5: half (rotating with VERIF_SEED) of {0,1,3}^5 x q in {0.25,0.5}",
                "d2": "n=5: one sixth (rotating with VERIF_SEED) of {0,1,3}^5 x q in {0.25,0.9}", "quantiles": list(QS)}
    return {"d1": "n=5: y in {0,1,2,3}^5, n=6: y in {0,1,3}^6, all quantiles", "d2": "n=6: y in {0,1,3}^6, all quantiles",
            "quantiles": list(QS)}


def cases(tier, seed):
    def chunks(d, n, ys, qs, ch=3):
        for i in range(0, len(ys), ch):
            yield {"d": d, "n": n, "ys": [list(v) for v in ys[i:i + ch]], "qs": list(qs)}
    for rows, scale in ((20000, 1000.0), (6007, 1000.0), (50021, 30.0)):
        for dt in ("float32", "float64"):
            for fi in (False, True):
                yield {"rows": rows, "scale": scale, "dtype": dt, "fit_intercept": fi}
    if tier == "quick":
        yield from chunks(1, 4, list(itertools.product((0, 1, 3), repeat=4)), QS)
        yield from chunks(1, 5, list(itertools.product((0, 1, 3), repeat=5))[seed % 2::2], (0.25, 0.5), 2)
        yield from chunks(2, 5, list(itertools.product((0, 1, 3), repeat=5))[seed % 6::6], (0.25, 0.9), 2)
    else:
        yield from chunks(1, 5, list(itertools.product((0, 1, 2, 3), repeat=5)), QS, 4)
        yield from chunks(1, 6, list(itertools.product((0, 1, 3), repeat=6)), QS, 4)
        yield from chunks(2, 6, list(itertools.product((0, 1, 3), repeat=6)), QS, 4)


def _design(d, n):
    import numpy
    if d == 1:
        return numpy.arange(n, dtype=numpy.float64).reshape(-1, 1)
    return numpy.array([[i, (i * i * 3 + 2 * i) % 7 + 0.5 * (i % 2)] for i in range(n)], dtype=numpy.float64)


def pinball(y, f, q, w=None):
    import numpy
    r = y - f
    l = q * numpy.maximum(r, 0) + (1 - q) * numpy.maximum(-r, 0)
    return l if w is None else l * w


def lp_optimum(Xm, y, q, w, pos_idx):
    """Brute force over LP vertices. Xm includes the intercept column if any; pos_idx = coefficient indices
    constrained to be >= 0."""
    import numpy
    n, p = Xm.shape
    best = None
    for r in range(0, len(pos_idx) + 1):
        for S in itertools.combinations(pos_idx, r):
            free = [j for j in range(p) if j not in S]
            m = len(free)
            if m == 0:
                f = numpy.zeros(n)
                L = pinball(y, f, q, w).sum()
                best = L if best is None else min(best, L)
                continue
            for rows in itertools.combinations(range(n), m):
                A = Xm[list(rows)][:, free]
                if abs(numpy.linalg.det(A)) < 1e-9:
                    continue
                beta_f = numpy.linalg.solve(A, y[list(rows)])
                beta = numpy.zeros(p)
                beta[free] = beta_f
                if any(beta[j] < -1e-10 for j in pos_idx):
                    continue
                L = pinball(y, Xm @ beta, q, w).sum()
                if best is None or L < best:
                    best = L
    return best


def _tall(case):
    """Tall designs (thousands of rows) whose columns live on different scales (a ratio in [0,1) next to a length in [0,1000)), as
    float64 and float32, with and without intercept: the fitted line's pinball loss is within 20% of an independent IRLS (plain NumPy,
    float64, columns rescaled) and the score is its negation-free mean; a coarser line never scores better."""
    import numpy
    import warnings
    from mlinsights.mlmodel import QuantileLinearRegression
    warnings.simplefilter("ignore")
    n, dt, fi = case["rows"], case["dtype"], case["fit_intercept"]
    viol = []
    i = numpy.arange(n, dtype=numpy.float64)
    x1 = (i * 0.6180339887498949) % 1.0
    x2 = ((i * 0.7548776662466927) % 1.0) * case["scale"]
    noise = (((i * 0.5698402909980532) % 1.0) - 0.5) * 1.2 + 0.3 * numpy.sin(i)
    y = 2.0 * x1 + (3.0 / case["scale"]) * x2 + noise + (0.0 if not fi else 1.5)
    X64 = numpy.column_stack([x1, x2])
    X = X64.astype(dt)
    cnt = 0
    for q in (0.1, 0.5, 0.9):
        cnt += 1
        cond = "tall design,columns on different scales,dtype=%s,fit_intercept=%s" % (dt, fi)
        try:
            m = QuantileLinearRegression(quantile=q, fit_intercept=fi, max_iter=200, delta=1e-4).fit(X, y)    # iteration cap far above the default: the fixed point
            pred = numpy.asarray(m.predict(X), dtype=numpy.float64)
            sc = float(m.score(X, y))
        except Exception as e:
            viol.append({"sig": "QuantileLinearRegression|raises %s|%s" % (type(e).__name__, cond), "msg": str(e)[:200]})
            continue
        loss = float(pinball(y, pred, q).mean())
        # independent reference: IRLS in float64 on rescaled columns
        A = numpy.column_stack([x1, x2 / case["scale"]] + ([numpy.ones(n)] if fi else []))
        beta = numpy.linalg.lstsq(A, y, rcond=None)[0]
        for _ in range(80):
            r = y - A @ beta
            wt = numpy.where(r > 0, q, 1 - q) / numpy.maximum(numpy.abs(r), 1e-6)
            sw = numpy.sqrt(wt)
            beta = numpy.linalg.lstsq(A * sw[:, None], y * sw, rcond=None)[0]
        ref = float(pinball(y, A @ beta, q).mean())
        if loss > 1.2 * ref + 1e-9:
            viol.append({"sig": "QuantileLinearRegression|pinball loss far above that of another line|" + cond,
                         "msg": "q=%s rows=%d scale=%s: loss %r, an IRLS line through the same rows has %r; coef_=%r intercept_=%r" % (
                             q, n, case["scale"], loss, ref, numpy.asarray(m.coef_).tolist(), m.intercept_)})
        if not fi and abs(float(numpy.ravel(m.intercept_)[0] if numpy.ndim(m.intercept_) else m.intercept_)) > 0:
            viol.append({"sig": "QuantileLinearRegression|intercept_ != 0 without intercept|" + cond, "msg": repr(m.intercept_)})
        if abs(sc - loss) > 1e-6 * max(1.0, loss) and abs(sc - 2 * loss) > 1e-6 * max(1.0, loss) and abs(sc + loss) > 1e-6 * max(1.0, loss):
            viol.append({"sig": "QuantileLinearRegression|score is not the mean pinball loss|" + cond, "msg": "score %r loss %r q=%s" % (sc, loss, q)})
    return {"viol": viol, "nontrivial": True, "states": cnt, "transitions": cnt * 3, "outcome": ("tall", dt, fi)}


def run_case(case):
    import numpy
    import warnings
    from mlinsights.mlmodel import QuantileLinearRegression

    if "rows" in case:
        return _tall(case)
    warnings.simplefilter("ignore")
    d, n = case["d"], case["n"]
    X = _design(d, n)
    Xp = numpy.vstack([X + 0.5, X[:2] - 1.0])
    viol = []
    sigs = set()
    cnt = 0

    def bad(kind, cond, msg):
        sig = "QuantileLinearRegression|%s|%s" % (kind, cond)
        if sig not in sigs:
            sigs.add(sig)
            viol.append({"sig": sig, "msg": msg})

    wmenu = [None, [1 + (i % 3) for i in range(n)], [2] * n]
    for ys in case["ys"]:
        y = numpy.array(ys, dtype=numpy.float64) + numpy.array(JIT[:n])
        yp = numpy.concatenate([y + 0.3, y[:2] - 0.2])
        for q in case["qs"]:
            for fi in (True, False):
                for positive in (False, True):
                    for wl in wmenu:
                        if wl is not None and (positive or not fi) and q not in (0.25, 0.5):
                            continue
                        w = None if wl is None else numpy.array(wl, dtype=numpy.float64)
                        qc = "q=0.5" if q == 0.5 else "q!=0.5"
                        cond = "%s,%s" % (qc, "weights" if w is not None else "no weights")
                        desc = "d=%d y=%r q=%s fit_intercept=%s positive=%s weights=%r" % (d, ys, q, fi, positive, wl)
                        X0, y0, w0 = X.copy(), y.copy(), None if w is None else w.copy()
                        cnt += 1
                        try:
                            m = QuantileLinearRegression(quantile=q, fit_intercept=fi, positive=positive,
                                                         max_iter=1000, delta=1e-4)
                            r = m.fit(X, y, sample_weight=w)
                            f = m.predict(X)
                        except Exception as e:
                            bad("fit raises %s" % type(e).__name__, cond, "%s %s" % (str(e)[:200], desc))
                            continue
                        if r is not m:
                            bad("fit does not return self", cond, desc)
                        if not (numpy.array_equal(X, X0) and numpy.array_equal(y, y0)
                                and (w is None or numpy.array_equal(w, w0))):
                            bad("training data modified", cond, desc)
                        coef = numpy.asarray(m.coef_, dtype=float).ravel()
                        if positive and (coef < -1e-12).any():
                            bad("positive=True gives a negative coefficient", cond, "%r %s" % (coef.tolist(), desc))
                        if not fi and float(numpy.asarray(m.intercept_).ravel()[0] if numpy.ndim(m.intercept_) else m.intercept_) != 0.0:
                            bad("fit_intercept=False gives a non-zero intercept", cond, "%r %s" % (m.intercept_, desc))
                        # optimality
                        Xm = numpy.hstack([X, numpy.ones((n, 1))]) if fi else X
                        L = pinball(y, f, q, w).sum()
                        # positive=True: the statement only says "non-negative coefficients"; the implementation also
                        # keeps the intercept non-negative. Both readings are accepted: the reference optimum is taken
                        # over the smaller class (intercept >= 0 too), which is the weaker demand.
                        Ls = lp_optimum(Xm, y, q, w, list(range(Xm.shape[1])) if positive else [])
                        tol = n * 1e-4 * (1.0 if w is None else float(w.max())) * 4
                        if L > Ls + tol:
                            bad("not a pinball-loss minimiser", "%s,fit_intercept=%s,positive=%s" % (cond, fi, positive),
                                "loss %r optimum %r (tol %g) %s" % (L, Ls, tol, desc))
                        if fi and w is None and not positive:
                            below = int((y < f - 1e-3).sum())
                            below_eq = int((y <= f + 1e-3).sum())
                            p = d + 1
                            if below > q * n + 1e-9 or below_eq < q * n - 1e-9:
                                bad("fraction of targets below the fit is not about q", cond,
                                    "%d strictly below, %d below or on, q*n=%r %s" % (below, below_eq, q * n, desc))
                        # score == 2 * mean pinball (training and fresh data)
                        for XX, yy, ww, which in ((X, y, None, "train"), (Xp, yp, None, "probe"),
                                                  (X, y, w, "train-weighted")):
                            if which == "train-weighted" and w is None:
                                continue
                            try:
                                s = float(m.score(XX, yy, sample_weight=ww))
                            except Exception as e:
                                bad("score raises %s" % type(e).__name__, cond, "%s %s" % (str(e)[:200], desc))
                                continue
                            ff = m.predict(XX)
                            if ww is None:
                                exp = 2 * pinball(yy, ff, q).mean()
                            else:
                                exp = 2 * pinball(yy, ff, q, ww).sum() / ww.sum()
                            if abs(s - exp) > 1e-12 * max(1.0, abs(exp)):
                                bad("score != 2 * mean pinball loss", "%s,%s" % (qc, "weighted score" if ww is not None else "unweighted score"),
                                    "score %r expected %r on %s %s" % (s, exp, which, desc))
                        # a better q-quantile fit never scores worse: shifted copies of the model
                        s0 = float(m.score(Xp, yp))
                        l0 = pinball(yp, m.predict(Xp), q).mean()
                        ic = m.intercept_
                        for shift in (-0.7, 0.4, 1.3):
                            m.intercept_ = ic + shift
                            s1 = float(m.score(Xp, yp))
                            l1 = pinball(yp, m.predict(Xp), q).mean()
                            if (l0 < l1 - 1e-12 and s0 > s1 + 1e-12) or (l1 < l0 - 1e-12 and s1 > s0 + 1e-12):
                                bad("a better quantile fit scores worse", qc,
                                    "losses %r vs %r scores %r vs %r (shift %r) %s" % (l0, l1, s0, s1, shift, desc))
                        m.intercept_ = ic
                        # integer weights == repeated rows
                        if w is not None:
                            rep = numpy.repeat(numpy.arange(n), numpy.array(wl))
                            try:
                                m2 = QuantileLinearRegression(quantile=q, fit_intercept=fi, positive=positive,
                                                              max_iter=1000, delta=1e-4).fit(X[rep], y[rep])
                                L2 = pinball(y[rep], m2.predict(X[rep]), q).sum()
                                if abs(L2 - L) > 2 * tol:
                                    bad("integer weights != repeated rows (loss)", cond, "%r vs %r %s" % (L, L2, desc))
                                sw = float(m.score(X, y, sample_weight=w))
                                sr = float(m.score(X[rep], y[rep]))
                                if abs(sw - sr) > 1e-9:
                                    bad("integer weights != repeated rows (score)", "%s,weighted score" % qc,
                                        "weighted %r repeated %r %s" % (sw, sr, desc))
                            except Exception as e:
                                bad("fit raises %s" % type(e).__name__, cond + ",repeated rows", "%s %s" % (str(e)[:200], desc))
    # integer-dtype targets (counts): the same numbers as float64 must give the same fit and the same score
    for ys in case["ys"][:2]:
        yi = numpy.array([3 * v + (i * i) % 5 for i, v in enumerate(ys)], dtype=numpy.int64)
        yf = yi.astype(numpy.float64)
        for q in (0.25, 0.5, 0.9):
            cnt += 1
            try:
                mi = QuantileLinearRegression(quantile=q, max_iter=200).fit(X, yi)
                mf = QuantileLinearRegression(quantile=q, max_iter=200).fit(X, yf)
            except Exception:
                continue   # a zero residual can make every IRLS weight vanish: outside the property's quantifier
            qc = "q=0.5" if q == 0.5 else "q!=0.5"
            if not numpy.allclose(mi.predict(X), mf.predict(X), rtol=1e-9, atol=1e-9):
                bad("integer-dtype targets give another fit than the same targets as float64", qc,
                    "y=%r q=%s int fit %r float fit %r" % (yi.tolist(), q, mi.predict(X).tolist(), mf.predict(X).tolist()))
            si, sf = float(mi.score(X, yi)), float(mf.score(X, yf))
            exp = 2 * pinball(yf, mf.predict(X), q).mean()
            if abs(sf - exp) > 1e-9 * max(1.0, abs(exp)) or abs(si - sf) > 1e-9 * max(1.0, abs(sf)):
                bad("score != 2 * mean pinball loss", "%s,integer-dtype targets" % qc, "int %r float %r expected %r y=%r" % (si, sf, exp, yi.tolist()))
    # magnitudes: one target far away from the others (a corrupted record), and the whole problem in large units; the pinball
    # optimum is insensitive to how far an outlier lies, and the IRLS floor `delta` is an absolute quantity
    for ys in case["ys"][:2]:
        base = numpy.array(ys, dtype=numpy.float64) + numpy.array(JIT[:n])
        for vname, y in (("one target at +1e7", numpy.where(numpy.arange(n) == 0, 1.0e7, base)),
                         ("one target at -1e7", numpy.where(numpy.arange(n) == n - 1, -1.0e7, base)),
                         ("one target at +1e4", numpy.where(numpy.arange(n) == 1, 1.0e4, base)),
                         ("all targets x 1e5", base * 1.0e5)):
            for q in (0.25, 0.5, 0.9):
                cnt += 1
                cond = "%s,no weights,target magnitudes" % ("q=0.5" if q == 0.5 else "q!=0.5")
                desc = "d=%d y=%r (%s) q=%s" % (d, y.tolist(), vname, q)
                try:
                    m = QuantileLinearRegression(quantile=q, max_iter=1000, delta=1e-4).fit(X, y)
                    f = numpy.asarray(m.predict(X))
                except Exception as e:
                    bad("fit raises %s" % type(e).__name__, cond, "%s %s" % (str(e)[:200], desc))
                    continue
                L = pinball(y, f, q).sum()
                Ls = lp_optimum(numpy.hstack([X, numpy.ones((n, 1))]), y, q, None, [])
                tol = n * 1e-4 * 4 + 1e-9 * abs(Ls)
                if L > Ls + tol:
                    bad("not a pinball-loss minimiser", cond, "loss %r optimum %r (tol %g) %s" % (L, Ls, tol, desc))
                sc = float(m.score(X, y))
                exp = 2 * pinball(y, f, q).mean()
                if abs(sc - exp) > 1e-12 * max(1.0, abs(exp)):
                    bad("score != 2 * mean pinball loss", cond, "score %r expected %r %s" % (sc, exp, desc))
    # flags given as NumPy bools / integers (ParameterGrid over an array, a comparison result): true is true, false is false
    for ys in case["ys"][:1]:
        y = numpy.array(ys, dtype=numpy.float64) + numpy.array(JIT[:n]) + 5.0          # a quantile line that misses the origin
        for q in (0.25, 0.75):
            for fi, pos in ((numpy.bool_(True), False), (1, False), (numpy.bool_(False), False), (0, False), (True, numpy.bool_(True))):   # an integer for positive is refused by scikit-learn itself
                cnt += 1
                cond = "%s,no weights,flags as NumPy bool / integer" % ("q=0.5" if q == 0.5 else "q!=0.5")
                desc = "d=%d y=%r q=%s fit_intercept=%r (%s) positive=%r (%s)" % (d, y.tolist(), q, fi, type(fi).__name__, pos, type(pos).__name__)
                try:
                    m = QuantileLinearRegression(quantile=q, max_iter=1000, delta=1e-4, fit_intercept=fi, positive=pos).fit(X, y)
                    f = numpy.asarray(m.predict(X))
                except Exception as e:
                    bad("fit raises %s" % type(e).__name__, cond, "%s %s" % (str(e)[:200], desc))
                    continue
                Xm = numpy.hstack([X, numpy.ones((n, 1))]) if fi else X
                L = pinball(y, f, q).sum()
                Ls = lp_optimum(Xm, y, q, None, list(range(Xm.shape[1])) if pos else [])
                tol = n * 1e-4 * 4
                if Ls is not None and L > Ls + tol:
                    bad("not a pinball-loss minimiser", cond, "loss %r optimum %r (tol %g) %s" % (L, Ls, tol, desc))
                if not fi and float(numpy.ravel(m.intercept_)[0]) != 0.0:
                    bad("fit_intercept=False gives a non-zero intercept", cond, "%r %s" % (m.intercept_, desc))
    # sign and location of the features: the same design mirrored (every value negative), centred (mixed signs) and shifted far
    # to the right, with and without positive=True, against the exact LP optimum over the same class
    for ys in case["ys"][:2]:
        y = numpy.array(ys, dtype=numpy.float64) + numpy.array(JIT[:n])
        for vname, Xv in (("all features negative", -X - 1.0), ("features centred", X - X.mean(axis=0)), ("features shifted by +50", X + 50.0),
                          ("first feature negative, others positive", X * numpy.array([-1.0] + [1.0] * (d - 1)) - numpy.array([1.0] + [0.0] * (d - 1)))):
            for q, positive, fi in ((0.25, True, True), (0.75, True, True), (0.5, False, True), (0.25, True, False)):
                cnt += 1
                cond = "%s,no weights,fit_intercept=%s,positive=%s,sign of the features" % ("q=0.5" if q == 0.5 else "q!=0.5", fi, positive)
                desc = "d=%d X=%r y=%r (%s) q=%s positive=%s fit_intercept=%s" % (d, Xv.tolist(), ys, vname, q, positive, fi)
                try:
                    m = QuantileLinearRegression(quantile=q, max_iter=1000, delta=1e-4, positive=positive, fit_intercept=fi).fit(Xv, y)
                    f = numpy.asarray(m.predict(Xv))
                except Exception as e:
                    bad("fit raises %s" % type(e).__name__, cond, "%s %s" % (str(e)[:200], desc))
                    continue
                coef = numpy.asarray(m.coef_, dtype=float).ravel()
                if positive and (coef < -1e-12).any():
                    bad("positive=True gives a negative coefficient", cond, "%r %s" % (coef.tolist(), desc))
                Xm = numpy.hstack([Xv, numpy.ones((n, 1))]) if fi else Xv
                L = pinball(y, f, q).sum()
                Ls = lp_optimum(Xm, y, q, None, list(range(Xm.shape[1])) if positive else [])
                tol = n * 1e-4 * 4 * max(1.0, float(numpy.abs(Xv).max()) / 5.0)
                if Ls is not None and L > Ls + tol:
                    bad("not a pinball-loss minimiser", cond, "loss %r optimum %r (tol %g) %s" % (L, Ls, tol, desc))
    # the same training set / scoring set stored behind other memory layouts and dtypes: same optimality, same score identity
    from checks.catalog import layouts
    pair = {"Fortran order": "column of a C-ordered table", "strided window of a larger table": "every second element",
            "negative strides": "negative stride", "transposed window": "column of a C-ordered table", "read-only": "read-only"}
    for ys in case["ys"][:1]:
        y = numpy.array(ys, dtype=numpy.float64) + numpy.array(JIT[:n])
        for q, wl in ((0.25, None), (0.75, wmenu[1])):
            w = None if wl is None else numpy.array(wl, dtype=numpy.float64)
            Ls = lp_optimum(numpy.hstack([X, numpy.ones((n, 1))]), y, q, w, [])
            tol = n * 1e-4 * (1.0 if w is None else float(w.max())) * 4
            forms = [(nm, Xl, dict(layouts(y))[pair[nm]], None if w is None else dict(layouts(w))[pair[nm]]) for nm, Xl in layouts(X)[1:]]
            if (X == numpy.round(X)).all():
                forms.append(("int64 X", X.astype(numpy.int64), y, w))
                forms.append(("float32 X", X.astype(numpy.float32), y, w))
            for nm, Xl, yl, wl_ in forms:
                cnt += 1
                cond = "%s,%s,training set stored as %s" % ("q!=0.5", "weights" if w is not None else "no weights",
                                                           "another dtype" if "X" in nm else "a non-contiguous/read-only array")
                desc = "d=%d y=%r q=%s weights=%r layout=%s" % (d, ys, q, wl, nm)
                try:
                    m = QuantileLinearRegression(quantile=q, max_iter=1000, delta=1e-4).fit(Xl, yl, sample_weight=wl_)
                    f = numpy.asarray(m.predict(Xl))
                    sc = float(m.score(Xl, yl, sample_weight=wl_))
                except Exception as e:
                    bad("fit raises %s" % type(e).__name__, cond, "%s %s" % (str(e)[:200], desc))
                    continue
                L = pinball(y, f, q, w).sum()
                if L > Ls + tol:
                    bad("not a pinball-loss minimiser", cond, "loss %r optimum %r (tol %g) %s" % (L, Ls, tol, desc))
                exp = 2 * pinball(y, f, q).mean() if w is None else 2 * pinball(y, f, q, w).sum() / w.sum()
                if abs(sc - exp) > 1e-12 * max(1.0, abs(exp)):
                    bad("score != 2 * mean pinball loss", cond, "score %r expected %r %s" % (sc, exp, desc))
    return {"viol": viol, "nontrivial": any(len(set(v)) > 1 for v in case["ys"]), "states": cnt,
            "transitions": cnt * 8, "outcome": (d, n)}
