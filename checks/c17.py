"""C17 — IntervalRegressor bootstraps over the whole training set, aggregates exactly (E x I).

Rows are encoded X[i]=i, y[i]=100+i, w[i]=1000+i; a recording base regressor logs what each model is
fitted on. The bootstrap draw is a deterministic function of the global NumPy seed, so the bounded seed
space [0,S) is enumerated (valid whatever RNG call the implementation uses).
"""
import itertools

PROPERTY = "C17"
RULE = ("every (n in 1..4, alpha, n_estimators, weights on/off) x every global seed in [0,S); per configuration the set "
        "of index vectors drawn over the seed space is compared with [0,n)^m. non-trivial = n >= 2")
ASSUMPTIONS = ["round(alpha*n): both round-half-up and round-half-even accepted at exact .5 ties",
               "eligibility of every row is decided over the enumerated seed space: with S >= 200 draws of >= 1 index a "
               "row that is eligible is missed with probability < 1e-25"]


def bounds(tier):
    return {"S": 200 if tier == "quick" else 3000, "n": [1, 4] if tier == "quick" else [1, 5],
            "schedule_bound": 2 if tier == "quick" else 3}


def cases(tier, seed):
    b = bounds(tier)
    for (m, rows) in ((17, 65537), (70, 20001), (16, 70001), (3, 400003)) + (((33, 100003),) if tier == "thorough" else ()):
        yield {"m": m, "rows": rows}
    for name in BASES:
        yield {"base": name}
    K = 8
    for W, m in ((2, 3), (3, 3), (2, 4)):
        for k in range(K):
            yield {"kind": "schedule", "W": W, "n": 4, "alpha": 1.5 if W == 3 else 1.0, "m": m, "weights": W != 3,
                   "bound": b["schedule_bound"], "part": [k, K], "g": W}
    for n in range(b["n"][0], b["n"][1] + 1):
        for alpha in (0.5, 1.0, 1.5):
            for m in (1, 2, 3):
                for w in (False, True, "zeros"):
                    yield {"n": n, "alpha": alpha, "m": m, "weights": w, "S": b["S"]}


class _Log:
    def __init__(self):
        self.fits = []

    def __deepcopy__(self, memo):
        return self


def _make_recorder():
    import numpy
    from sklearn.base import BaseEstimator, RegressorMixin

    class Recorder(BaseEstimator, RegressorMixin):
        def __init__(self, log=None):
            self.log = log

        def fit(self, X, y, sample_weight=None):
            self.seen_ = (numpy.array(X, copy=True), numpy.array(y, copy=True),
                          None if sample_weight is None else numpy.array(sample_weight, copy=True))
            self.log.fits.append(self.seen_)
            self.ref_ = (X, y, sample_weight)        # a learner may keep its training arrays without copying them (kernel / lazy learners)
            self.mean_ = float(numpy.mean(y)) if len(y) else 0.0
            self.k_ = len(self.log.fits)
            return self

        def predict(self, X):
            return self.mean_ + 0.25 * self.k_ + 0.5 * numpy.asarray(X, dtype=numpy.float64)[:, 0]
    return Recorder


def _bigbatch(case):
    """Query batches whose rows x n_estimators product passes 2^20 (block-wise aggregation): predict is still the mean of predict_all."""
    import numpy
    from sklearn.linear_model import LinearRegression
    from mlinsights.mlmodel import IntervalRegressor
    m, rows = case["m"], case["rows"]
    viol = []
    rs = numpy.random.RandomState(7)
    X = rs.uniform(-1, 1, size=(40, 2))
    y = X[:, 0] * 2 - X[:, 1] + rs.normal(size=40) * 0.5
    numpy.random.seed(0)
    model = IntervalRegressor(estimator=LinearRegression(), n_estimators=m, alpha=1.0).fit(X, y)
    Q = rs.uniform(-2, 2, size=(rows, 2))
    pa = numpy.asarray(model.predict_all(Q))
    pm = numpy.asarray(model.predict(Q))
    ps = numpy.asarray(model.predict_sorted(Q))
    cond = "n>=2,rows x n_estimators = 2^%d" % int(numpy.log2(rows * m))
    exp_all = numpy.column_stack([e.predict(Q) for e in model.estimators_])
    if pa.shape != exp_all.shape or not numpy.array_equal(pa, exp_all):
        viol.append({"sig": "IntervalRegressor|predict_all != individual predictions|" + cond, "msg": repr(case)})
    if pm.shape != (rows,) or numpy.abs(pm - exp_all.mean(axis=1)).max() > 1e-12:
        viol.append({"sig": "IntervalRegressor|predict != mean of individual predictions|" + cond,
                     "msg": "max difference %r %r" % (float(numpy.abs(pm - exp_all.mean(axis=1)).max()) if pm.shape == (rows,) else pm.shape, case)})
    if ps.shape != exp_all.shape or not numpy.array_equal(ps, numpy.sort(exp_all, axis=1)):
        viol.append({"sig": "IntervalRegressor|predict_sorted != row-wise sorted predictions|" + cond, "msg": repr(case)})
    return {"viol": viol, "nontrivial": True, "states": 1, "transitions": rows, "outcome": ("big", m, rows)}


BASES = ("linreg", "ridge", "lasso", "poisson", "gamma", "tweedie15", "tree", "knn", "svr-linear", "pipe-linreg", "link-square",
         "link-attrs", "dummy", "huber", "ttr-log")


def _base(name):
    import numpy
    from sklearn.base import BaseEstimator, RegressorMixin
    from sklearn import linear_model as lm
    if name == "linreg":
        return lm.LinearRegression()
    if name == "ridge":
        return lm.Ridge(alpha=0.5)
    if name == "lasso":
        return lm.Lasso(alpha=0.01)
    if name == "huber":
        return lm.HuberRegressor()
    if name == "poisson":
        return lm.PoissonRegressor(alpha=0.01)
    if name == "gamma":
        return lm.GammaRegressor(alpha=0.01)
    if name == "tweedie15":
        return lm.TweedieRegressor(power=1.5, alpha=0.01, link="log")
    if name == "tree":
        from sklearn.tree import DecisionTreeRegressor
        return DecisionTreeRegressor(max_depth=3, random_state=0)
    if name == "knn":
        from sklearn.neighbors import KNeighborsRegressor
        return KNeighborsRegressor(n_neighbors=2)
    if name == "svr-linear":
        from sklearn.svm import SVR
        return SVR(kernel="linear")
    if name == "pipe-linreg":
        from sklearn.pipeline import make_pipeline
        from sklearn.preprocessing import StandardScaler
        return make_pipeline(StandardScaler(), lm.LinearRegression())
    if name == "dummy":
        from sklearn.dummy import DummyRegressor
        return DummyRegressor(strategy="median")
    if name == "ttr-log":
        from sklearn.compose import TransformedTargetRegressor
        return TransformedTargetRegressor(regressor=lm.LinearRegression(), func=numpy.log, inverse_func=numpy.exp)

    class LinkRegressor(BaseEstimator, RegressorMixin):
        """A regressor that carries the fitted attributes of several families (coef_, intercept_, feature_importances_, tree_-less)
        and whose prediction is NOT affine in them: nothing but its predict method says what it predicts."""
        def __init__(self, rich=False):
            self.rich = rich

        def fit(self, X, y, sample_weight=None):
            X = numpy.asarray(X, dtype=numpy.float64)
            A = numpy.column_stack([X, numpy.ones(len(X))])
            sol = numpy.linalg.lstsq(A, numpy.sqrt(numpy.abs(numpy.asarray(y, dtype=numpy.float64))), rcond=None)[0]
            self.coef_, self.intercept_ = sol[:-1], float(sol[-1])
            if self.rich:
                self.feature_importances_ = numpy.abs(self.coef_)
                self.n_features_in_ = X.shape[1]
                self.estimators_ = []
                self.dual_coef_ = self.coef_.reshape(1, -1)
            return self

        def predict(self, X):
            return (numpy.asarray(X, dtype=numpy.float64) @ self.coef_ + self.intercept_) ** 2
    return LinkRegressor(rich=name == "link-attrs")


def _bases(case):
    """The base-regressor dimension: linear, generalised linear (log link), kernel, tree, neighbour, pipeline and harness regressors;
    whatever the base is, predict is the mean of the individual predictions, predict_sorted their row-wise sort."""
    import numpy
    from mlinsights.mlmodel import IntervalRegressor
    viol = []
    name = case["base"]
    rs = numpy.random.RandomState(3)
    X = rs.uniform(0.5, 3.0, size=(30, 2))
    y = numpy.exp(0.4 * X[:, 0] - 0.3 * X[:, 1]) + rs.uniform(0.0, 0.5, size=30) + 0.5
    w = rs.uniform(0.5, 2.0, size=30)
    cnt = 0
    for m in (2, 5):
        for weighted in (False, True):
            if weighted and name in ("knn", "pipe-linreg", "ttr-log"):
                continue
            numpy.random.seed(m)
            cond = "base=%s" % name
            try:
                model = IntervalRegressor(estimator=_base(name), n_estimators=m, alpha=0.8).fit(X, y, sample_weight=w if weighted else None)
            except Exception as e:
                viol.append({"sig": "IntervalRegressor|fit raises %s|%s" % (type(e).__name__, cond), "msg": str(e)[:200]})
                continue
            for Q in (X[:7], rs.uniform(0.0, 4.0, size=(1, 2)), rs.uniform(0.0, 4.0, size=(33, 2))):
                cnt += 1
                exp_all = numpy.column_stack([numpy.asarray(e.predict(Q), dtype=numpy.float64).ravel() for e in model.estimators_])
                try:
                    pa = numpy.asarray(model.predict_all(Q))
                    pm = numpy.asarray(model.predict(Q))
                    ps = numpy.asarray(model.predict_sorted(Q))
                except Exception as e:
                    viol.append({"sig": "IntervalRegressor|predict raises %s|%s" % (type(e).__name__, cond), "msg": str(e)[:200]})
                    continue
                desc = "n_estimators=%d weighted=%s batch of %d rows" % (m, weighted, len(Q))
                tol = 1e-9 * max(1.0, float(numpy.abs(exp_all).max()))
                if pa.shape != exp_all.shape or not numpy.array_equal(pa, exp_all):
                    viol.append({"sig": "IntervalRegressor|predict_all != individual predictions|" + cond, "msg": desc})
                if pm.shape != (len(Q),) or numpy.abs(pm - exp_all.mean(axis=1)).max() > tol:
                    viol.append({"sig": "IntervalRegressor|predict != mean of individual predictions|" + cond,
                                 "msg": "%s: max difference %r" % (desc, float(numpy.abs(pm - exp_all.mean(axis=1)).max()) if pm.shape == (len(Q),) else pm.shape)})
                if ps.shape != exp_all.shape or not numpy.array_equal(ps, numpy.sort(exp_all, axis=1)):
                    viol.append({"sig": "IntervalRegressor|predict_sorted != row-wise sorted predictions|" + cond, "msg": desc})
                elif pm.shape == (len(Q),) and ((pm < ps[:, 0] - tol) | (pm > ps[:, -1] + tol)).any():
                    viol.append({"sig": "IntervalRegressor|predict outside [min, max]|" + cond, "msg": desc})
    seen = set()
    viol = [v for v in viol if not (v["sig"] in seen or seen.add(v["sig"]))]
    return {"viol": viol, "nontrivial": True, "states": cnt, "transitions": cnt * 3, "outcome": ("base", name)}


def _schedule(case):
    """Part S: IntervalRegressor(n_jobs=W).fit under EVERY thread schedule with <= bound preemptions (scheduling point = every
    source line of the bootstrap task body; the base regressor's fit is one atomic step). In every schedule: one fit per model,
    round(alpha*n) rows each, all from [0,n), features / target / weight of a row kept together, nothing handed to a model is
    overwritten afterwards, and the three aggregations agree with the individual predictions."""
    import json
    import numpy
    from mcheck import sched
    from mlinsights.mlmodel import IntervalRegressor
    Recorder = _make_recorder()
    n, alpha, m, W = case["n"], case["alpha"], case["m"], case["W"]
    viol, sigs = [], set()

    def bad(kind, msg):
        sig = "IntervalRegressor|%s|n_jobs=%d thread schedule" % (kind, W)
        if sig not in sigs:
            sigs.add(sig)
            viol.append({"sig": sig, "msg": msg})

    X = numpy.arange(n, dtype=numpy.float64).reshape(-1, 1)
    y = 100.0 + numpy.arange(n)
    w = 1000.0 + numpy.arange(n) if case["weights"] else None
    P = numpy.array([[0.0], [1.5], [-2.0], [7.0]])
    sizes_ok = {int(alpha * n + 0.5), int(round(alpha * n))}
    sched.install()
    try:
        def run_once():
            numpy.random.seed(case.get("g", 0))
            log = _Log()
            obs = {"problems": []}
            pr = obs["problems"]
            try:
                model = IntervalRegressor(estimator=Recorder(log=log), n_estimators=m, alpha=alpha, n_jobs=W)
                r = model.fit(X, y, sample_weight=w)
            except Exception as e:
                pr.append(("fit raises %s" % type(e).__name__, str(e)[:200]))
                return obs
            if r is not model:
                pr.append(("fit does not return self", ""))
            ests = list(model.estimators_)
            if len(ests) != m or len(log.fits) != m or len({id(e) for e in ests}) != m or any(not hasattr(e, "seen_") for e in ests):
                pr.append(("number of fitted models", "%d models, %d fits for n_estimators=%d" % (len(ests), len(log.fits), m)))
                return obs
            draws = []
            for est in ests:
                Xs, ys, ws = est.seen_
                idx = Xs[:, 0]
                draws.append([float(v) for v in idx])
                if len(ys) not in sizes_ok or len(Xs) != len(ys):
                    pr.append(("sample size != round(alpha*n)", "%d rows" % len(ys)))
                if len(idx) and (idx.min() < 0 or idx.max() > n - 1 or (idx != idx.astype(int)).any()):
                    pr.append(("drawn row is not a training row", repr(idx.tolist())))
                elif len(ys) != len(idx) or not numpy.array_equal(ys - 100.0, idx) or (w is not None and (
                        ws is None or len(ws) != len(idx) or not numpy.array_equal(ws, w[idx.astype(int)]))):
                    pr.append(("features/target/weight of a drawn row not kept together",
                               "X=%r y=%r w=%r" % (idx.tolist(), ys.tolist(), None if ws is None else ws.tolist())))
                for nm, a_, b_ in zip(("features", "targets", "weights"), est.ref_, est.seen_):
                    if (a_ is None) != (b_ is None) or (a_ is not None and not numpy.array_equal(numpy.asarray(a_), b_)):
                        pr.append(("training arrays handed to a model were overwritten after its fit", nm))
            try:
                pa = numpy.asarray(model.predict_all(P))
                pm = numpy.asarray(model.predict(P))
                ps = numpy.asarray(model.predict_sorted(P))
                exp_all = numpy.column_stack([est.predict(P) for est in ests])
                if pa.shape != exp_all.shape or not numpy.array_equal(pa, exp_all):
                    pr.append(("predict_all != individual predictions", ""))
                elif pm.shape != (len(P),) or numpy.abs(pm - exp_all.mean(axis=1)).max() > 1e-12:
                    pr.append(("predict != mean of individual predictions", ""))
                elif ps.shape != pa.shape or not numpy.array_equal(ps, numpy.sort(exp_all, axis=1)):
                    pr.append(("predict_sorted != row-wise sorted predictions", ""))
            except Exception as e:
                pr.append(("predict raises %s" % type(e).__name__, str(e)[:200]))
            obs["draws"] = sorted(draws)       # which vectors were drawn (the schedule may hand them to other models: not an error)
            obs["fit order"] = [e.k_ for e in ests]
            return obs

        execs, points, outcomes = 0, 0, {}
        for choices, obs, pts in sched.explore(run_once, case["bound"], part=tuple(case.get("part", (0, 1)))):
            execs += 1
            points = max(points, len(pts))
            key = json.dumps(obs, sort_keys=True)
            outcomes.setdefault(key, choices)
            for kind, msg in obs["problems"]:
                bad(kind, "%s; schedule %r (n=%d alpha=%s n_estimators=%d weights=%s seed %d)" % (
                    msg, choices[:80], n, alpha, m, case["weights"], case.get("g", 0)))
        for key, choices in list(outcomes.items())[:2]:
            for _ in range(2):
                sched.ControlledParallel.chooser = sched.Chooser(choices)
                try:
                    o = run_once()
                finally:
                    sched.ControlledParallel.chooser = None
                if json.dumps(o, sort_keys=True) != key:
                    raise AssertionError("harness: schedule replay is not deterministic")
        if case.get("part", (0, 1))[0] == 0 and points < 3 * m:
            raise AssertionError("harness: only %d scheduling points: the task bodies are not under the scheduler" % points)
    finally:
        sched.uninstall()
    return {"viol": viol, "nontrivial": True, "states": execs, "transitions": execs * max(points, 1), "outcome": ("sched", W, len(outcomes)),
            "counters": {"schedules_explored": execs, "max_scheduling_points": points, "distinct_outcomes": len(outcomes)},
            "sample": {"schedules": execs, "distinct outcomes (fit orders x draw assignments)": len(outcomes), "scheduling points per execution": points}}


def run_case(case):
    import numpy
    from mlinsights.mlmodel import IntervalRegressor
    if "rows" in case:
        return _bigbatch(case)
    if case.get("kind") == "schedule":
        return _schedule(case)
    if "base" in case:
        return _bases(case)

    Recorder = _make_recorder()
    n, alpha, m, S = case["n"], case["alpha"], case["m"], case["S"]
    viol = []
    sigs = set()

    def bad(kind, cond, msg):
        sig = "IntervalRegressor|%s|%s" % (kind, cond)
        if sig not in sigs:
            sigs.add(sig)
            viol.append({"sig": sig, "msg": msg})

    X = numpy.arange(n, dtype=numpy.float64).reshape(-1, 1)
    y = 100.0 + numpy.arange(n)
    w = 1000.0 + numpy.arange(n) if case["weights"] else None
    if case["weights"] == "zeros":
        # some rows carry weight 0 (every row stays eligible for the draw; the weight travels with the row)
        w = numpy.where(numpy.arange(n) % 2 == 0, 0.0, w)
    w_of = (lambda idx_: None) if w is None else (lambda idx_: w[idx_.astype(int)])
    P = numpy.array([[0.0], [1.5], [-2.0], [7.0]])
    Ps = [P, numpy.array([[0], [1], [-2], [7]], dtype=numpy.int64), P.astype(numpy.float32), numpy.asfortranarray(P)]
    x = alpha * n
    sizes_ok = {int(x + 0.5), int(round(x))}
    seen_rows = set()
    seen_vecs = set()
    cnt = 0
    ncond = "n=1" if n == 1 else "n>=2"
    desc0 = "n=%d alpha=%s n_estimators=%d weights=%s" % (n, alpha, m, case["weights"])
    for g in range(S):
        ncond = "n=1" if n == 1 else "n>=2"
        numpy.random.seed(g)
        log = _Log()
        desc = "%s numpy.random.seed(%d)" % (desc0, g)
        X0, y0 = X.copy(), y.copy()
        try:
            model = IntervalRegressor(estimator=Recorder(log=log), n_estimators=m, alpha=alpha)
            r = model.fit(X, y, sample_weight=w)
        except Exception as e:
            bad("fit raises %s" % type(e).__name__, ncond, "%s %s" % (str(e)[:200], desc))
            break
        cnt += 1
        if r is not model:
            bad("fit does not return self", ncond, desc)
        if not (numpy.array_equal(X, X0) and numpy.array_equal(y, y0)):
            bad("training data modified", ncond, desc)
        if len(log.fits) != m or len(model.estimators_) != m:
            bad("number of fitted models", ncond, "%d fits for n_estimators=%d %s" % (len(log.fits), m, desc))
            continue
        for est in model.estimators_:
            kept, seen = getattr(est, "ref_", None), getattr(est, "seen_", None)
            if kept is None or seen is None:
                continue
            for nm, a_, b_ in zip(("features", "targets", "weights"), kept, seen):
                if (a_ is None) != (b_ is None) or (a_ is not None and not numpy.array_equal(numpy.asarray(a_), b_)):
                    bad("training arrays handed to a model were overwritten after its fit", ncond,
                        "%s now %r, at fit time %r %s" % (nm, None if a_ is None else numpy.asarray(a_).ravel().tolist()[:6], None if b_ is None else b_.ravel().tolist()[:6], desc))
        for (Xs, ys, ws) in log.fits:
            if len(ys) not in sizes_ok or len(Xs) != len(ys):
                bad("sample size != round(alpha*n)", ncond, "%d rows, expected %r %s" % (len(ys), sorted(sizes_ok), desc))
            idx = Xs[:, 0] if len(Xs) else numpy.array([])
            if not numpy.array_equal(ys - 100.0, idx) or (w is not None and (ws is None or len(ws) != len(idx) or (
                    len(idx) and (idx.min() >= 0 and idx.max() <= n - 1 and (idx == idx.astype(int)).all()) and not numpy.array_equal(ws, w_of(idx))))):
                bad("features/target/weight of a drawn row not kept together", ncond,
                    "X=%r y=%r w=%r %s" % (Xs.ravel().tolist(), ys.tolist(), None if ws is None else ws.tolist(), desc))
            if w is None and ws is not None:
                bad("weights invented", ncond, desc)
            if len(idx) and (idx.min() < 0 or idx.max() > n - 1 or (idx != idx.astype(int)).any()):
                bad("drawn row is not a training row", ncond, "%r %s" % (idx.tolist(), desc))
            seen_rows.update(int(v) for v in idx)
            seen_vecs.add(tuple(int(v) for v in idx))
        # aggregation (query batches of several dtypes: the individual predictions are float64 whatever the batch is)
        Pq = Ps[g % len(Ps)]
        qcond = "%s,query dtype %s" % (ncond, Pq.dtype)
        try:
            pa = numpy.asarray(model.predict_all(Pq))
            pm = numpy.asarray(model.predict(Pq))
            ps = numpy.asarray(model.predict_sorted(Pq))
        except Exception as e:
            bad("predict raises %s" % type(e).__name__, qcond, "%s %s" % (str(e)[:200], desc))
            continue
        exp_all = numpy.column_stack([est.predict(Pq) for est in model.estimators_])
        ncond_saved, ncond = ncond, qcond
        if pa.shape != (len(P), m) or not numpy.array_equal(pa, exp_all):
            bad("predict_all != individual predictions", ncond, desc)
            continue
        if pm.shape != (len(P),) or numpy.abs(pm - exp_all.mean(axis=1)).max() > 1e-12:
            bad("predict != mean of individual predictions", ncond, "%r vs %r %s" % (pm.tolist(), exp_all.mean(axis=1).tolist(), desc))
        if ps.shape != pa.shape or not numpy.array_equal(ps, numpy.sort(exp_all, axis=1)):
            bad("predict_sorted != row-wise sorted predictions", ncond, desc)
        elif ((pm < ps[:, 0] - 1e-12) | (pm > ps[:, -1] + 1e-12)).any():
            bad("predict outside [min, max]", ncond, desc)
        ncond = ncond_saved
        # history: hyper-parameters changed after the fit (no refit) leave the fitted models, hence all three outputs, as they are;
        # a refit then uses the new values
        if g < 6:
            for key, val in (("n_estimators", m + 1), ("n_estimators", 1 if m > 1 else 4), ("alpha", alpha / 2 + 0.25)):
                hcond = "%s,after fit; set_params(%s=other)" % (ncond, key)
                try:
                    old = model.get_params(deep=False)[key]
                    model.set_params(**{key: val})
                    pa2 = numpy.asarray(model.predict_all(Pq))
                    pm2 = numpy.asarray(model.predict(Pq))
                    ps2 = numpy.asarray(model.predict_sorted(Pq))
                    model.set_params(**{key: old})
                except Exception as e:
                    bad("predict raises %s" % type(e).__name__, hcond, "%s %s" % (str(e)[:200], desc))
                    break
                cnt += 1
                if not numpy.array_equal(pa2, exp_all):
                    bad("predict_all != individual predictions", hcond, desc)
                if pm2.shape != (len(P),) or numpy.abs(pm2 - exp_all.mean(axis=1)).max() > 1e-12:
                    bad("predict != mean of individual predictions", hcond, "%r vs %r %s" % (pm2.tolist(), exp_all.mean(axis=1).tolist(), desc))
                if not numpy.array_equal(ps2, numpy.sort(exp_all, axis=1)):
                    bad("predict_sorted != row-wise sorted predictions", hcond, desc)
    size = int(x + 0.5)
    if not viol or all("raises" not in v["sig"] for v in viol):
        if size >= 1 and seen_rows != set(range(n)):
            bad("some training row is never drawn over the whole seed space", ncond,
                "rows drawn over %d seeds x %d models: %r of %r (%s)" % (S, m, sorted(seen_rows), list(range(n)), desc0))
        if 1 <= size <= 3 and n <= 3 and S * m >= 40 * n ** size:
            allv = set(itertools.product(range(n), repeat=size))
            if not allv <= seen_vecs:
                bad("some index vector (with replacement) is never drawn", ncond,
                    "missing e.g. %r (%s)" % (sorted(allv - seen_vecs)[:3], desc0))
    return {"viol": viol, "nontrivial": n >= 2, "states": cnt, "transitions": cnt * (m + 3),
            "outcome": (n, len(seen_vecs)), "sample": {"distinct index vectors drawn": len(seen_vecs)}}
