"""C01 — parameter protocol: get_params / set_params / clone round-trip (history explorer).

Explicit-state BFS over call histories on real objects. A state is rebuilt by replaying its history on a fresh
object from the catalogue factory; states are de-duplicated by the canonical form of all instance attributes.
Reference model: a dict (flattened parameter map).
"""
PROPERTY = "C01"
CASE_TIMEOUT = 2400
RULE = ("BFS from every (exported class, configuration) over {clone, set_params(k, fresh value) for <= 8 curated keys "
        "(plain, nested, prefixed, indexed >= 10, estimator-valued), transfer from every other configuration}, with "
        "get_params(deep in {T,F}) and set_params(k, same value) for EVERY advertised key evaluated in every state; "
        "non-trivial = state reached by at least one set/transfer")
ASSUMPTIONS = ["the reference model is a flat dict: set_params(k=v) changes k (and the keys below k when v is an estimator) "
               "and nothing else; clone keeps the flat map and shares no nested estimator object",
               "'behave identically' = same outputs after fitting both objects on one fixed data set under the same seeds"]


def bounds(tier):
    return {"depth": 2 if tier == "quick" else 3, "behaviour_depth": 1 if tier == "quick" else 2, "curated_keys": 8}


def cases(tier, seed):
    from checks import catalog as K
    from mcheck import loader
    loader.load()
    b = bounds(tier)
    for name, e in K.catalogue().items():
        for v in e["variants"]:
            yield {"cls": name, "variant": v, "depth": b["depth"], "bdepth": b["behaviour_depth"],
                   "alldepth": 1 if tier == "quick" else 2}


# ------------------------------------------------------------------ helpers
def _fresh_value(key, v, strs, est=None, skip=()):
    """A valid value different from v for parameter `key`, or (False, None)."""
    if key in skip:
        return False, None
    if key.rsplit("__", 1)[-1] == "method" and isinstance(v, str) and est is not None:
        # only a method the wrapped model really has is a valid value
        p = est.get_params(deep=True)
        pref = key[:-len("method")]
        wrapped = p.get(pref + "model", p.get(pref + "estimator"))
        if wrapped is None or isinstance(wrapped, (list, tuple)):
            return False, None
        for cand in ("predict", "predict_proba", "transform"):
            if cand != v and hasattr(wrapped, cand):
                return True, cand
        return False, None
    import numpy
    from sklearn.linear_model import LinearRegression, LogisticRegression
    from sklearn.tree import DecisionTreeRegressor, DecisionTreeClassifier
    from sklearn.cluster import KMeans
    from sklearn.preprocessing import StandardScaler, MinMaxScaler
    from sklearn.base import is_classifier, is_regressor
    from checks.catalog import is_est
    base = key.rsplit("__", 1)[-1]
    if base[:2] in ("c_", "e_") and "__" not in key:
        base = base[2:]
    if isinstance(v, (bool, numpy.bool_)):
        return True, (not bool(v))
    if isinstance(v, (int, numpy.integer)):
        return True, int(v) + 1
    if isinstance(v, (float, numpy.floating)):
        return True, float(v) * 0.5 + 0.125
    if isinstance(v, (list, tuple)) and v and all(isinstance(x, (int, float)) and not isinstance(x, bool) for x in v):
        return True, type(v)(x + 3 for x in v)                 # same length, other content
    if isinstance(v, dict) and v and all(isinstance(x, (int, float)) and not isinstance(x, bool) for x in v.values()):
        return True, {k_: x + 3 for k_, x in v.items()}        # same keys, other values
    if isinstance(v, str) or (v is None and base in strs):
        # menus may contain None (a documented synonym such as fit_improve_algo=None)
        alts = [a for a in strs.get(base, []) if a != v]
        return (True, alts[0]) if alts else (False, None)
    if is_est(v):
        from mlinsights.mlmodel.sklearn_transform_inv import BaseReciprocalTransformer
        from mlinsights.mlmodel import FunctionReciprocalTransformer
        if isinstance(v, BaseReciprocalTransformer):
            return True, FunctionReciprocalTransformer("log1p")
        if isinstance(v, KMeans):
            return True, KMeans(n_clusters=4, n_init=1, random_state=3)
        try:
            if is_classifier(v):
                return True, (LogisticRegression(C=2.0) if isinstance(v, DecisionTreeClassifier) else DecisionTreeClassifier(max_depth=1))
            if is_regressor(v):
                return True, (LinearRegression() if isinstance(v, DecisionTreeRegressor) else DecisionTreeRegressor(max_depth=1))
        except Exception:
            pass
        if isinstance(v, StandardScaler):
            return True, MinMaxScaler()
        return False, None
    return False, None


def _category(key, v):
    import re
    import numpy
    from checks.catalog import is_est
    m = re.match(r"^models_(\d+)__", key)
    if m and int(m.group(1)) >= 10:
        return "indexed>=10"
    nested = "__" in key or key[:2] in ("c_", "e_")
    if is_est(v):
        return "nested estimator" if nested else "estimator"
    t = ("bool" if isinstance(v, (bool, numpy.bool_)) else "int" if isinstance(v, (int, numpy.integer)) else
         "float" if isinstance(v, (float, numpy.floating)) else "str" if isinstance(v, str) else
         "none" if v is None else "list" if isinstance(v, list) else "tuple" if isinstance(v, tuple) else "dict" if isinstance(v, dict) else "other")
    return ("nested " if nested else "plain ") + t


def _curated(est, strs, limit=8, skip=(), every=False):
    out = []
    seen = set()
    p = est.get_params(deep=True)
    for k in sorted(p):
        cat = _category(k, p[k])
        if cat in seen and not every:
            continue
        ok, nv = _fresh_value(k, p[k], strs, est, skip)
        if ok:
            seen.add(cat)
            out.append((k, cat))
        if len(out) >= limit and not every:
            break
    return out


def _ordered(params, order):
    """The same keyword arguments in another order (ParameterGrid / GridSearchCV pass them sorted by name)."""
    if order == "sorted":
        return dict(sorted(params.items()))
    if order == "reversed":
        return dict(sorted(params.items(), reverse=True))
    return dict(params)


def _apply(est, op, C, strs):
    """Applies op to est; returns (object to continue with, return value)."""
    from sklearn.base import clone
    if op[0] == "clone":
        c = clone(est)
        return c, c
    if op[0] == "set":
        k = op[1]
        v = est.get_params(deep=True)[k]
        ok, nv = _fresh_value(k, v, strs, est, C['skip'])
        r = est.set_params(**{k: nv})
        return est, r
    if op[0] == "transfer":
        donor = C["variants"][op[1]]()
        r = est.set_params(**_ordered(donor.get_params(deep=True), op[2] if len(op) > 2 else "reported"))
        return est, r
    raise KeyError(op)


def _expected_after_set(flat_before, key, nv, prefix=None):
    from checks.catalog import canon, is_est, flat_params
    exp = dict(flat_before)
    if is_est(nv):
        pre = (prefix or {}).get(key, key + "__")
        exp = {k: v for k, v in exp.items() if not k.startswith(pre)}
        exp[key] = ["EST", type(nv).__qualname__]
        for k, v in flat_params(nv).items():
            exp[pre + k] = v
    else:
        exp[key] = canon(nv)
    return exp


def _diff(a, b):
    ks = sorted(set(a) | set(b))
    d = [(k, a.get(k, "<absent>"), b.get(k, "<absent>")) for k in ks if a.get(k, "<absent>") != b.get(k, "<absent>")]
    return d


def run_case(case):
    import warnings
    import collections
    import numpy
    from sklearn.base import clone
    from checks import catalog as K

    warnings.simplefilter("ignore")
    cat = K.catalogue()
    C = cat[case["cls"]]
    strs = C["strs"]
    cls = case["cls"]
    viol = []
    sigs = set()

    def bad(kind, cond, msg):
        sig = "%s|%s|%s" % (cls, kind, cond)
        if sig not in sigs:
            sigs.add(sig)
            viol.append({"sig": sig, "msg": msg[:900]})

    def build(hist):
        est = C["variants"][case["variant"]]()
        for op in hist:
            est, _ = _apply(est, tuple(op), C, strs)
        return est

    try:
        root = build(())
        K.flat_params(root)
    except Exception as e:
        bad("get_params raises %s" % type(e).__name__, "fresh object", "%s: variant %s" % (e, case["variant"]))
        return {"viol": viol, "nontrivial": False}

    given = C.get("given", {}).get(case["variant"])
    if given:
        fl = K.flat_params(root)
        for k, v in given.items():
            if k not in fl:
                bad("get_params omits a constructor argument", "fresh object", "%s=%r variant %s reports %r" % (k, v, case["variant"], sorted(fl)))
            elif fl[k] != K.canon(v):
                bad("get_params reports another value than the constructor was given", "fresh object", "%s=%r reported %r" % (k, v, fl[k]))
    # ---------- independence of instances: two objects built by two separate constructor calls share no nested estimator the
    # library made for them (aliases such as binner='bins', default estimators), and setting any key of the one leaves the other,
    # and objects constructed afterwards, as they were
    try:
        a, b = build(()), build(())
        pb0 = K.flat_params(b)
        common = set(K.nested_ids(a)) & set(K.nested_ids(b))
        if common:
            bad("two separately constructed objects share a nested estimator instance", "fresh objects",
                "%r variant %s" % ([K.nested_ids(a)[i] for i in common], case["variant"]))
        for (k, ccat) in _curated(a, strs, 8, C["skip"], every=True):
            try:
                ok, nv = _fresh_value(k, a.get_params(deep=True)[k], strs, a, C["skip"])
                a.set_params(**{k: nv})
            except Exception:
                continue            # reported by the state exploration below
            transitions_indep = 1
            if K.flat_params(b) != pb0:
                bad("set_params on one object changes another object", ccat, "key %s: %r variant %s" % (k, _diff(pb0, K.flat_params(b))[:4], case["variant"]))
                break
            later = K.flat_params(build(()))
            if later != pb0:
                bad("set_params on one object changes objects constructed afterwards", ccat, "key %s: %r variant %s" % (k, _diff(pb0, later)[:4], case["variant"]))
                break
    except Exception as e:
        bad("independence section raises %s" % type(e).__name__, "fresh objects", "%s variant %s" % (str(e)[:200], case["variant"]))
    seen = {K.digest(K.state_canon(root))}
    frontier = collections.deque([()])
    states = 1
    transitions = 0
    while frontier:
        hist = frontier.popleft()
        hdesc = "variant %s history %r" % (case["variant"], list(hist))
        try:
            est = build(hist)
        except Exception as e:
            bad("replay raises %s" % type(e).__name__, "history", "%s %s" % (e, hdesc))
            continue
        # ---------- observations in this state
        try:
            deep1, deep2 = K.flat_params(est), K.flat_params(est)
            shallow = {k: K.canon(v) if not K.is_est(v) else ["EST", type(v).__qualname__] for k, v in est.get_params(deep=False).items()}
        except Exception as e:
            bad("get_params raises %s" % type(e).__name__, "after history", "%s %s" % (e, hdesc))
            continue
        if deep1 != deep2:
            bad("get_params not repeatable", "deep", hdesc)
        for k, v in shallow.items():
            if k in deep1 and deep1[k] != v and not (isinstance(deep1[k], list) and deep1[k][:1] == ["ESTLIST"]):
                bad("get_params(deep=False) disagrees with deep=True", _category(k, est.get_params(deep=False)[k]), "%s: %r vs %r %s" % (k, v, deep1[k], hdesc))
            if k not in deep1:
                bad("get_params(deep=True) lacks a key of deep=False", "key", "%s %s" % (k, hdesc))
        # set(k, same) for every advertised key
        params = est.get_params(deep=True)
        for k in sorted(params):
            e2 = build(hist)
            p2 = e2.get_params(deep=True)
            before = K.flat_params(e2)
            transitions += 1
            ccat = _category(k, p2[k])
            try:
                r = e2.set_params(**{k: p2[k]})
            except Exception as e:
                bad("set_params(k=current value) raises %s" % type(e).__name__, ccat, "key %s: %s %s" % (k, str(e)[:200], hdesc))
                continue
            if r is not e2:
                bad("set_params does not return the estimator", "returns %s" % type(r).__name__, "key %s %s" % (k, hdesc))
            try:
                after = K.flat_params(e2)
            except Exception as e:
                bad("get_params raises %s" % type(e).__name__, "after set_params", "key %s: %s %s" % (k, e, hdesc))
                continue
            if after != before:
                bad("set_params(k=current value) changes other parameters", ccat, "key %s: %r %s" % (k, _diff(before, after)[:4], hdesc))
        # set(k, an equal but distinct object) for every estimator-valued or estimator-list-valued key: the objects given are the ones
        # reported (and used) afterwards, even when they compare equal to the ones they replace
        if len(hist) <= 1:
            for k in sorted(params):
                v = params[k]
                members = [v] if K.is_est(v) else ([m for m in v if K.is_est(m)] if isinstance(v, (list, tuple)) else [])
                if not members or (isinstance(v, (list, tuple)) and len(members) != len(v)):
                    continue
                e3 = build(hist)
                try:
                    cur = e3.get_params(deep=True)[k]
                    nv = clone(cur, safe=False) if K.is_est(cur) else type(cur)(clone(m, safe=False) for m in cur)
                except Exception:
                    continue
                given = [nv] if K.is_est(cur) else list(nv)
                transitions += 1
                ccat = _category(k, cur)
                try:
                    e3.set_params(**{k: nv})
                    rep = e3.get_params(deep=True)
                except Exception as e:
                    bad("set_params(k=equal copy) raises %s" % type(e).__name__, ccat, "key %s: %s %s" % (k, str(e)[:200], hdesc))
                    continue
                reach = set()
                for val in rep.values():
                    reach.add(id(val))
                    if isinstance(val, (list, tuple)):
                        reach.update(id(m) for m in val)
                        reach.update(id(m[1]) for m in val if isinstance(m, tuple) and len(m) == 2)
                missing = [type(g).__name__ for g in given if id(g) not in reach]
                if missing:
                    bad("set_params(k=equal but distinct object) keeps the old object", ccat,
                        "key %s: the object(s) given (%s) are not among the values get_params reports afterwards %s" % (k, ", ".join(missing), hdesc))
        # ---------- transitions
        ops = [("clone",)] + [("set", k, c) for k, c in _curated(est, strs, 8, C["skip"], every=len(hist) < case.get("alldepth", 1))] + [("transfer", v, o) for v in sorted(C["variants"]) for o in (("reported", "sorted", "reversed") if len(hist) == 0 else ("reported",))]
        for op in ops:
            e2 = build(hist)
            before = K.flat_params(e2)
            transitions += 1
            odesc = "%s then %r" % (hdesc, op)
            last = "construction" if not hist else ("%s %s" % (hist[-1][0], hist[-1][1].rsplit("__", 1)[-1]) if hist[-1][0] == "set" else hist[-1][0])
            if op[0] == "clone":
                if hasattr(e2, "models") and hasattr(e2, "method") and any(
                        getattr(m, "method", e2.method) != e2.method for m in e2.models):
                    last = "a member's method differs from the stacking method"
                try:
                    c = clone(e2)
                except Exception as e:
                    bad("clone raises %s" % type(e).__name__, "after %s" % last, "%s %s" % (str(e)[:300], odesc))
                    continue
                if c is e2 or type(c) is not type(e2):
                    bad("clone is not a distinct object of the same class", "clone", odesc)
                try:
                    fc = K.flat_params(c)
                except Exception as e:
                    bad("get_params raises %s" % type(e).__name__, "on a clone", "%s %s" % (e, odesc))
                    continue
                if fc != before:
                    bad("clone has different parameters", "clone", "%r %s" % (_diff(before, fc)[:4], odesc))
                shared = set(K.nested_ids(e2)) & set(K.nested_ids(c))
                if shared:
                    bad("clone shares a nested estimator instance", "clone", "%r %s" % ([K.nested_ids(c)[i] for i in shared], odesc))
                fitted = [a for a in vars(c) if a.endswith("_") and not a.startswith("_") and a not in ("method_",)]
                if fitted:
                    bad("clone is not unfitted", "clone", "%r %s" % (fitted, odesc))
                nxt = c
            elif op[0] == "set":
                k = op[1]
                v = e2.get_params(deep=True)[k]
                ok, nv = _fresh_value(k, v, strs, e2, C['skip'])
                try:
                    r = e2.set_params(**{k: nv})
                except Exception as e:
                    bad("set_params raises %s" % type(e).__name__, op[2], "key %s=%r: %s %s" % (k, nv, str(e)[:200], odesc))
                    continue
                if r is not e2:
                    bad("set_params does not return the estimator", "returns %s" % type(r).__name__, "key %s %s" % (k, odesc))
                try:
                    after = K.flat_params(e2)
                except Exception as e:
                    bad("get_params raises %s" % type(e).__name__, "after set_params", "key %s: %s %s" % (k, e, odesc))
                    continue
                if C["fit"] and K.is_est(nv) and len(hist) <= case["bdepth"]:
                    # get_params reports what rebuilds the object: the object and its clone must behave identically
                    try:
                        twin = clone(e2)
                        dat = K.data(C["kind"], 0)
                        outs = []
                        for obj in (e2, twin):
                            try:
                                numpy.random.seed(0)
                                K.fit(obj, C["kind"], dat)
                                outs.append(("ok", K.observe(obj, C["kind"], dat)))
                            except Exception as ex:
                                outs.append(("raises", type(ex).__name__))
                        if outs[0][0] != outs[1][0]:
                            bad("after set_params the object and its clone behave differently", "one of them raises",
                                "object: %r clone: %r key %s %s" % (outs[0][1] if outs[0][0] == "raises" else "ok",
                                                                     outs[1][1] if outs[1][0] == "raises" else "ok", k, odesc))
                        elif outs[0][0] == "ok":
                            dd = K.same_obs(outs[0][1], outs[1][1])
                            if dd:
                                bad("after set_params the object and its clone behave differently", "outputs", "%s key %s %s" % (dd, k, odesc))
                    except Exception as ex:
                        cc = "set %s" % k.rsplit("__", 1)[-1]
                        if hasattr(e2, "models") and hasattr(e2, "method") and any(
                                getattr(m_, "method", e2.method) != e2.method for m_ in e2.models):
                            cc = "a member's method differs from the stacking method"
                        bad("clone raises %s" % type(ex).__name__, "after %s" % cc, "%s %s" % (str(ex)[:200], odesc))
                    e2 = build(tuple(hist) + (op,))
                exp = _expected_after_set(before, k, nv, C['prefix'])
                if after != exp:
                    d = _diff(exp, after)
                    kind = ("set_params does not change the key it is given" if any(x[0] == k for x in d)
                            else "set_params changes keys it was not given")
                    bad(kind, op[2], "key %s=%r: (key, expected, reported)=%r %s" % (k, nv, d[:4], odesc))
                nxt = e2
            else:
                donor = C["variants"][op[1]]()
                dkeys = set(getattr(getattr(donor, "P", None), "Keys", []) or [])
                rkeys = set(getattr(getattr(e2, "P", None), "Keys", []) or [])
                if not dkeys <= rkeys:
                    # free-form keyword parameters: set_params is only defined for names the receiver advertises
                    continue
                try:
                    dflat = K.flat_params(donor)
                    r = e2.set_params(**_ordered(donor.get_params(deep=True), op[2]))
                except Exception as e:
                    bad("transfer raises %s" % type(e).__name__, "set_params(**other.get_params(deep=True))" + ("" if op[2] == "reported" else ", keys %s" % op[2]),
                        "donor %s: %s %s" % (op[1], str(e)[:300], odesc))
                    continue
                if r is not e2:
                    bad("set_params does not return the estimator", "returns %s" % type(r).__name__, "transfer %s" % odesc)
                try:
                    after = K.flat_params(e2)
                except Exception as e:
                    bad("get_params raises %s" % type(e).__name__, "after transfer", "%s %s" % (e, odesc))
                    continue
                # a kwargs-style object cannot lose a keyword parameter through set_params: only those extras are tolerated
                own = set(getattr(getattr(e2, "P", None), "Keys", []) or [])
                after_cmp = {k: v for k, v in after.items() if k in dflat or k not in own}
                if after_cmp != dflat:
                    bad("after transfer the parameters differ from the donor's", "set_params(**other.get_params(deep=True))" + ("" if op[2] == "reported" else ", keys %s" % op[2]),
                        "(key, donor, receiver)=%r %s" % (_diff(dflat, after_cmp)[:4], odesc))
                elif C["fit"] and len(hist) < case["bdepth"]:
                    # behave identically
                    try:
                        dat = K.data(C["kind"], 0)
                        fresh = C["variants"][op[1]]()
                        numpy.random.seed(0)
                        K.fit(fresh, C["kind"], dat)
                        o1 = K.observe(fresh, C["kind"], dat)
                        numpy.random.seed(0)
                        K.fit(e2, C["kind"], dat)
                        o2 = K.observe(e2, C["kind"], dat)
                        d = K.same_obs(o1, o2)
                        if d:
                            bad("after transfer the object behaves differently from the donor", "fit+predict", "%s %s" % (d, odesc))
                    except Exception as e:
                        bad("after transfer fit/predict raises %s" % type(e).__name__, "fit+predict", "%s %s" % (str(e)[:300], odesc))
                    e2 = build(tuple(hist) + (op,)) if True else e2
                nxt = e2
            if len(hist) + 1 <= case["depth"]:
                try:
                    key = K.digest(K.state_canon(nxt))
                except Exception:
                    continue
                if key not in seen:
                    seen.add(key)
                    states += 1
                    if len(hist) + 1 < case["depth"]:
                        frontier.append(tuple(hist) + (op,))
    return {"viol": viol, "nontrivial": states > 1, "states": states, "transitions": transitions,
            "outcome": (cls, case["variant"], states)}
