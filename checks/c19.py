"""C19 — CategoriesToIntegers encodes each category by its own indicator and nothing else (input explorer).

Training frames: two categorical columns whose category sets range over every subset of {x,y,z}, one numeric
column. Test frames: every 2-row frame over the value alphabet (seen, unseen NEW, missing) for both columns.
Options: single, skip_errors, remove, columns (explicit / object-dtype detection).
Reference: cell-by-cell model.
"""
import itertools

PROPERTY = "C19"
RULE = ("every pair of training category sets (subsets of {x,y,z}) x every 2-row test frame over the value alphabet "
        "x single x skip_errors x remove x columns; non-trivial = the test frame contains a seen category")
ASSUMPTIONS = ["an indicator is a cell equal to 1.0; nothing is demanded of the filler value of other cells",
               "frames use dtype=object or explicit columns= (pandas 3 no longer infers object for strings)",
               "with remove=[...] test frames only use categories that were not removed; the rank clause of "
               "single=True is checked with remove=None"]

CATS = ("x", "y", "z")


def bounds(tier):
    return {"test_alphabet": ["x", "y", "NEW", None] if tier == "quick" else ["x", "y", "z", "NEW", None, "nan"],
            "rows": 2}


def cases(tier, seed):
    subsets = [list(s) for r in range(0, 4) for s in itertools.combinations(CATS, r)]
    bsub = subsets if tier == "thorough" else [[], ["x"], ["x", "y"], ["y", "z"]]
    for a in subsets:
        for b in bsub:
            yield {"A": a, "B": b, "alphabet": bounds(tier)["test_alphabet"], "tier": tier}
    # many tricky categories at once (prefixes of one another, digits, '=', spaces, names of other columns), every prefix length of
    # the list, each category held out of the training frame in turn
    for ncat in range(2, len(WIDE) + 1):
        yield {"ncat": ncat, "hold": []}
        for h in (range(ncat) if tier == "thorough" or ncat in (len(WIDE), 11) else [(ncat * 5 + seed) % ncat]):
            yield {"ncat": ncat, "hold": [h]}
    # integer categories whose text order differs from their natural order (2 < 10 < 33 but '10' < '2' < '33'; -1)
    isub = [list(s_) for r in range(0, 4) for s_ in itertools.combinations((2, 10, 33), r)]
    for a in isub:
        for b in ([[], [-1, 2], [10, 2]] if tier == "quick" else isub):
            yield {"A": a, "B": b, "alphabet": [2, 10, 7, None] if tier == "quick" else [2, 10, 33, 7, None], "tier": tier, "ints": True}


WIDE = ["a", "ab", "abc", "b", "1", "10", "2", "x=y", "x y", "B", "\u00e9", "A=a", "num", "0.5"]


def _wide(case, bad):
    """Many categories at once, chosen to collide if names were compared by prefix, by text, after splitting at '=' or after
    a numeric conversion; one test row per category; index and column-dtype variants of the test frame."""
    import numpy
    import pandas
    from mlinsights.mlmodel import CategoriesToIntegers

    cats = WIDE[:case["ncat"]]
    hold = case["hold"]                      # categories left out of the training frame (unseen at transform time)
    seenA = [c for i, c in enumerate(cats) if i not in hold]
    seenB = list(cats)
    n = len(cats)
    train = pandas.DataFrame({"A": pandas.Series((seenA[::-1] + [None] * n)[:n], dtype=object), "num": numpy.arange(n) * 0.5,
                              "flag": [bool(i % 2) for i in range(n)], "B": pandas.Series(seenB, dtype=object)})
    testA = cats + [None]
    testB = [None] + cats[::-1]
    m = len(testA)
    cnt = ntriv = 0
    train_obj = train
    for single, skip, explicit, tdtype in itertools.product((False, True), (False, True), (True, False), ("object", "category")):
        cond0 = "single=%s,skip_errors=%s,%d categories" % (single, skip, n)
        train = train_obj
        if tdtype == "category":
            if not explicit:
                continue
            # pandas categorical columns whose dtype DECLARES categories that do not occur in the rows (as after df[mask] or a split):
            # only the values that occur were seen by fit
            train = train_obj.copy()
            train["A"] = pandas.Categorical(train_obj["A"], categories=sorted(set(cats) | {"ghost"}))
            train["B"] = pandas.Categorical(train_obj["B"], categories=sorted(set(cats) | {"ghost", "zz"}))
            cond0 += ",training columns of category dtype"
        try:
            tr = CategoriesToIntegers(columns=["A", "B"] if explicit else None, skip_errors=skip, single=single).fit(train)
        except Exception as e:
            bad("fit raises %s" % type(e).__name__, cond0, "%s categories=%r" % (e, cats))
            continue
        # an unseen value that EXTENDS a training category and is longer than every training category (fixed-width string dtypes
        # would cut it back to a known one): an error without skip_errors, no indicator / no code with it
        longest = max(seenA, key=len)
        ext = longest + "zz"
        t2 = pandas.DataFrame({"A": pandas.Series([ext, seenA[0]], dtype=object), "num": [1.0, 2.0], "flag": [True, False],
                               "B": pandas.Series([seenB[0], seenB[-1]], dtype=object)})
        # ... and the same two rows at the head of a tall frame (1200 rows: whole-column code paths), the other rows cycling over the
        # training categories
        tall_n = 1200
        tallA = [ext, seenA[0]] + [seenA[i % len(seenA)] for i in range(tall_n - 2)]
        tallB = [seenB[0], seenB[-1]] + [seenB[(i * 3) % len(seenB)] for i in range(tall_n - 2)]
        t3 = pandas.DataFrame({"A": pandas.Series(tallA, dtype=object), "num": numpy.arange(tall_n) * 1.0, "flag": [bool(i % 2) for i in range(tall_n)],
                               "B": pandas.Series(tallB, dtype=object)})
        for t2, tname in ((t2, ""), (t3, ",tall frame")):
            cnt += 1
            try:
                o2 = tr.transform(t2)
                e2 = None
            except Exception as e_:
                o2, e2 = None, e_
            xcond = "%s,unseen category%s" % (cond0, tname)
            if tname and e2 is None and o2 is not None and not single:
                # the seen rows of the tall frame: exactly their own indicator among the A= columns
                acols = [c_ for c_ in o2.columns if str(c_).startswith("A=")]
                block = o2[acols].to_numpy(dtype=float)[2:]
                want = numpy.array([[1.0 if c_ == "A=%s" % v_ else 0.0 for c_ in acols] for v_ in tallA[2:]])
                if block.shape != want.shape or not numpy.array_equal(numpy.nan_to_num(block), want):
                    bad("indicator set for another value", xcond, "tall frame: the A= block of the seen rows is not one indicator per row, categories=%r" % (seenA,))
            if not skip and e2 is None:
                bad("unseen category does not raise", xcond, "value %r extends the training category %r; categories=%r single=%s" % (ext, longest, seenA, single))
            if skip:
                if e2 is not None:
                    bad("transform raises %s" % type(e2).__name__, xcond, "%s value %r skip_errors=True" % (str(e2)[:150], ext))
                elif single:
                    g_ = o2["A"].iloc[0]
                    if not (g_ is None or (isinstance(g_, float) and g_ != g_)):
                        bad("single=True: missing/unseen value encoded", xcond, "%r -> %r" % (ext, g_))
                else:
                    lit = [c_ for c_ in o2.columns if str(c_).startswith("A=") and o2[c_].iloc[0] == 1.0]
                    if lit:
                        bad("indicator set for another value", xcond, "unseen %r lights %r" % (ext, lit))
        for iname, idx in (("default", None), ("strings", ["r%d" % i for i in range(m)]), ("duplicates", [3] * m),
                           ("descending", list(range(m, 0, -1)))):
            for dname in ("object", "category", "str"):
                if dname != "object" and not explicit:
                    continue
                try:
                    test = pandas.DataFrame({"B": pandas.Series(testB, dtype=object), "num": numpy.arange(m) * 1.0 - 2.0,
                                             "flag": [bool(i % 3) for i in range(m)], "A": pandas.Series(testA, dtype=object)})
                    if dname != "object":
                        test["A"] = test["A"].astype(dname)
                        test["B"] = test["B"].astype(dname)
                except Exception:
                    continue
                if idx is not None:
                    test.index = idx
                test0 = test.copy(deep=True)
                unseen = bool(hold)
                cnt += 1
                cond = "%s,%s" % (cond0, "unseen category" if unseen else "all seen")
                desc = "categories=%r held out of A=%r single=%s skip_errors=%s columns=%s index=%s column dtype=%s" % (
                    cats, [cats[i] for i in hold], single, skip, "explicit" if explicit else "auto", iname, dname)
                try:
                    out = tr.transform(test)
                    err = None
                except Exception as e:
                    out, err = None, e
                if not test.equals(test0):
                    bad("input frame modified", cond, desc)
                if unseen and not skip:
                    if err is None:
                        bad("unseen category does not raise", cond, desc)
                    continue
                if err is not None:
                    bad("transform raises %s" % type(err).__name__, cond, "%s %s" % (str(err)[:150], desc))
                    continue
                ntriv += 1
                if list(out.index) != list(test.index):
                    bad("index not preserved", cond, "%r %s" % (list(out.index)[:5], desc))
                    continue
                if list(out["num"]) != list(test0["num"]) or list(out["flag"]) != list(test0["flag"]):
                    bad("numeric column changed", cond, desc)
                kept = {"A": sorted(seenA), "B": sorted(seenB)}
                vals = {"A": testA, "B": testB}
                for c in "AB":
                    for i in range(m):
                        v = vals[c][i]
                        if single:
                            got = out[c].iloc[i]
                            if v is None or v not in kept[c]:
                                if not (got is None or (isinstance(got, float) and got != got)):
                                    bad("single=True: missing/unseen value encoded", cond, "%r -> %r %s" % (v, got, desc))
                            elif got != kept[c].index(v):
                                bad("single=True: not the rank among sorted categories", cond, "%s=%r -> %r expected %d %s" % (c, v, got, kept[c].index(v), desc))
                            continue
                        for u in kept[c]:
                            name = "%s=%s" % (c, u)
                            if name not in out.columns:
                                bad("indicator column missing", cond, "%s %s" % (name, desc))
                                continue
                            col = out[name]
                            if isinstance(col, pandas.DataFrame):
                                bad("two output columns share a name", cond, "%s %s" % (name, desc))
                                continue
                            is_one = col.iloc[i] == 1.0
                            want = v is not None and v == u
                            if is_one != want:
                                bad("indicator set for another value" if is_one else "indicator of the row's value not set", cond,
                                    "row %d %s=%r cell %s is %r %s" % (i, c, v, name, col.iloc[i], desc))
                if not single:
                    names = ["%s=%s" % (c, u) for c in "AB" for u in kept[c]]
                    for col in out.columns:
                        if col not in ("num", "flag") and col not in names and (out[col] == 1.0).any():
                            bad("indicator in an unexpected column", cond, "%s %s" % (col, desc))
    return cnt, ntriv


def run_case(case):
    import numpy
    import pandas
    from mlinsights.mlmodel import CategoriesToIntegers

    viol = []
    sigs = set()
    cnt = 0
    ntriv = 0

    def bad(kind, cond, msg):
        sig = "CategoriesToIntegers|%s|%s" % (kind, cond)
        if sig not in sigs:
            sigs.add(sig)
            viol.append({"sig": sig, "msg": msg})

    if "ncat" in case:
        cnt, ntriv = _wide(case, bad)
        return {"viol": viol, "nontrivial": ntriv > 0, "states": cnt, "transitions": cnt * (case["ncat"] + 1), "outcome": ("wide", case["ncat"], len(case["hold"]))}

    A, B = case["A"], case["B"]
    nrows = max(len(A), len(B), 1) + 1
    key_ = (lambda v: v) if case.get("ints") else None
    colA = list(reversed(A)) + [None] * (nrows - len(A))   # unsorted on purpose
    colB = [None] * (nrows - len(B)) + list(B)
    train = pandas.DataFrame({"A": pandas.Series(colA, dtype=object), "num": numpy.arange(nrows) * 1.5,
                              "B": pandas.Series(colB, dtype=object)})
    alpha = [float("nan") if v == "nan" else v for v in case["alphabet"]]

    def missing(v):
        return v is None or (isinstance(v, float) and v != v)

    cells = list(itertools.product(alpha, repeat=2))
    for single in (False, True):
        for skip in (False, True):
            for remove in (None, ["A=x"], ["B=y", "A=z"]):
                for explicit in (True, False):
                    if case.get("tier") != "thorough" and ((remove and not explicit) or (remove and len(remove) > 1)):
                        continue
                    cond0 = "single=%s,skip_errors=%s" % (single, skip)
                    try:
                        tr = CategoriesToIntegers(columns=["A", "B"] if explicit else None, remove=remove,
                                                  skip_errors=skip, single=single)
                        r = tr.fit(train)
                    except Exception as e:
                        bad("fit raises %s" % type(e).__name__, cond0, "%s train A=%r B=%r" % (e, A, B))
                        continue
                    if r is not tr:
                        bad("fit does not return self", cond0, "")
                    removed = set(remove or [])
                    kept = {"A": [c for c in sorted(A) if "A=%s" % c not in removed],
                            "B": [c for c in sorted(B) if "B=%s" % c not in removed]}
                    for r1 in cells:
                        for r2 in cells:
                            rows = [r1, r2]
                            # with remove: only categories that were not removed
                            if remove and any((not missing(v)) and ("%s=%s" % (c, v)) in removed
                                              for row in rows for c, v in zip("AB", row)):
                                continue
                            test = pandas.DataFrame({"A": pandas.Series([r1[0], r2[0]], dtype=object),
                                                     "num": [7.25, -1.0],
                                                     "B": pandas.Series([r1[1], r2[1]], dtype=object)})
                            test.index = [10, 5]
                            test0 = test.copy(deep=True)
                            unseen = [(i, c) for i, row in enumerate(rows) for c, v in zip("AB", row)
                                      if not missing(v) and v not in kept[c]]
                            cnt += 1
                            desc = "train A=%r B=%r test rows=%r single=%s skip_errors=%s remove=%r columns=%s" % (
                                A, B, rows, single, skip, remove, "explicit" if explicit else "auto")
                            cond = "%s,%s" % (cond0, "unseen category" if unseen else "all seen")
                            try:
                                out = tr.transform(test)
                                err = None
                            except ValueError as e:
                                out, err = None, e
                            except Exception as e:
                                if unseen and not skip:
                                    out, err = None, e      # "raises an error": the statement does not fix the exception type
                                else:
                                    bad("transform raises %s" % type(e).__name__, cond, "%s %s" % (str(e)[:150], desc))
                                    continue
                            if not test.equals(test0):
                                bad("input frame modified", cond, desc)
                            if case.get("ints") and err is None and out is not None and not single:
                                # the same rows with the categorical columns stored as float64 (what pandas makes of integers once a
                                # value is missing): 2.0 is the category 2
                                try:
                                    tf = test.copy()
                                    tf["A"] = pandas.to_numeric(tf["A"]).astype("float64")
                                    tf["B"] = pandas.to_numeric(tf["B"]).astype("float64")
                                    outf = tr.transform(tf)
                                    ind_cols = [c_ for c_ in out.columns if c_ != "num"]
                                    same_f = list(outf.columns) == list(out.columns) and all(
                                        ((outf[c_] == 1.0).tolist() == (out[c_] == 1.0).tolist()) for c_ in ind_cols)
                                    if not same_f:
                                        bad("indicator of the row's value not set", cond + ",integer categories stored as float64", desc)
                                except Exception as e_:
                                    bad("transform raises %s" % type(e_).__name__, cond + ",integer categories stored as float64", "%s %s" % (str(e_)[:150], desc))
                            if unseen and not skip:
                                if err is None:
                                    bad("unseen category does not raise", cond, desc)
                                continue
                            if err is not None:
                                bad("transform raises %s" % type(err).__name__, cond, "%s %s" % (str(err)[:150], desc))
                                continue
                            if any((not missing(v)) and v in kept[c] for row in rows for c, v in zip("AB", row)):
                                ntriv += 1
                            if list(out.index) != [10, 5]:
                                bad("index not preserved", cond, "%r %s" % (list(out.index), desc))
                                continue
                            if "num" not in out.columns or list(out["num"]) != [7.25, -1.0]:
                                bad("numeric column changed", cond, desc)
                            if single:
                                for c in "AB":
                                    if c not in out.columns:
                                        bad("single=True column missing", cond, desc)
                                        continue
                                    for i, row in enumerate(rows):
                                        v = row["AB".index(c)]
                                        got = out[c].iloc[i]
                                        if missing(v) or v not in kept[c]:
                                            if not (got is None or (isinstance(got, float) and got != got)):
                                                bad("single=True: missing/unseen value encoded", cond, "%r -> %r %s" % (v, got, desc))
                                        elif remove is None:
                                            if got != sorted(kept[c]).index(v):
                                                bad("single=True: not the rank among sorted categories", cond,
                                                    "%s=%r -> %r expected %d %s" % (c, v, got, sorted(kept[c]).index(v), desc))
                                continue
                            for c in "AB":
                                for u in kept[c]:
                                    name = "%s=%s" % (c, u)
                                    if name not in out.columns:
                                        bad("indicator column missing", cond, "%s %s" % (name, desc))
                                        continue
                                    for i, row in enumerate(rows):
                                        v = row["AB".index(c)]
                                        is_one = out[name].iloc[i] == 1.0
                                        want = (not missing(v)) and v == u
                                        if is_one != want:
                                            bad("indicator set for another value" if is_one else "indicator of the row's value not set",
                                                cond, "row %d %s=%r cell %s is %r %s" % (i, c, v, name, out[name].iloc[i], desc))
                            extra = [col for col in out.columns if col != "num" and col not in
                                     ["%s=%s" % (c, u) for c in "AB" for u in kept[c]]]
                            for col in extra:
                                if (out[col] == 1.0).any():
                                    bad("indicator in an unexpected column", cond, "%s %s" % (col, desc))
    return {"viol": viol, "nontrivial": ntriv > 0, "states": cnt, "transitions": cnt, "outcome": (len(A), len(B))}
