"""C16 — pipeline introspection and drawing describe the pipeline they are given (I over programs).

Programs are generated from the grammar
  T ::= StandardScaler | MinMaxScaler | FeatureUnion(T, T) | Pipeline(T, T)
      | ColumnTransformer((T|'passthrough', cols) [, (T|'passthrough', cols)], remainder in {drop, passthrough})
optionally followed by a final classifier / regressor, with named or integer column selectors, to a nesting depth
bound; schemas: DataFrame, ndarray, list of names. Only (program, schema) pairs scikit-learn itself can fit.
"""
import itertools

PROPERTY = "C16"
CASE_TIMEOUT = 300
RULE = ("every program of the grammar up to the depth bound x final step in {none, regressor, classifier} x schema; "
        "non-trivial = program contains a FeatureUnion or ColumnTransformer")
ASSUMPTIONS = ["a DOT endpoint is 'declared' when a statement name[...] exists for its node and, for node:port, the port "
               "<port> occurs in that node's record label (implicit declaration by first use does not count)",
               "a 'step' for the debugging clause is an estimator that is actually executed at predict time: Pipeline.steps, "
               "FeatureUnion.transformer_list, and for a fitted ColumnTransformer the fitted transformers_",
               "consecutive steps chain: the recorded output of step i equals the recorded input of step i+1 of a Pipeline"]


def bounds(tier):
    return {"depth": 2, "note": "quick: depth-2 programs whose index is congruent to VERIF_SEED mod 4, all depth-1 programs"}


# --------------------------------------------------------------- program generation (as JSON-able descriptors)
def _leaves():
    return [["S"], ["M"]]


def _programs(depth, named):
    """Transformer programs of nesting depth <= depth over 3 input columns."""
    if depth == 0:
        return _leaves()
    cols = (["a"], ["b", "c"], ["a", "b"]) if named else ([0], [1, 2], [0, 1])
    icol = ([0], [1, 2], [0, 1])
    if depth == 1:
        small = _leaves()
    else:
        # representative children of every kind; nested selectors are tried with the outer naming and with integers,
        # programs scikit-learn cannot fit are dropped at run time
        small = _leaves() + [["FU", ["S"], ["M"]], ["P", ["S"], ["M"]],
                             ["CT", [[["S"], cols[2]]], "drop"], ["CT", [[["M"], cols[0]], [["pass"], cols[1]]], "passthrough"],
                             ["CT", [[["S"], icol[0]]], "passthrough"], ["CT", [[["M"], icol[2]], [["pass"], [0]]], "drop"]]
    out = list(_leaves())
    for a, b in itertools.product(small, repeat=2):
        out.append(["FU", a, b])
        out.append(["P", a, b])
    for a in small:
        out.append(["P", a, ["pass"]])        # 'passthrough' is also a legal Pipeline step
        out.append(["P", ["pass"], a])
    ct_children = small + [["pass"]]
    for a in ct_children:
        for rem in ("drop", "passthrough"):
            out.append(["CT", [[a, cols[2]]], rem])
    for a, b in itertools.product(ct_children, repeat=2):
        if a == ["pass"] and b == ["pass"]:
            continue
        for rem in ("drop", "passthrough"):
            out.append(["CT", [[a, cols[0]], [b, cols[1]]], rem])
    seen, uniq = set(), []
    for p in out:
        k = repr(p)
        if k not in seen:
            seen.add(k)
            uniq.append(p)
    return uniq


def cases(tier, seed):
    for named in (True, False):
        p1 = _programs(1, named)
        k1 = set(map(repr, p1))
        p2 = [p for p in _programs(2, named) if repr(p) not in k1]
        if tier == "quick":
            p2 = p2[seed % 4::4]
        progs = p1 + p2
        for i in range(0, len(progs), 8):
            yield {"named": named, "programs": progs[i:i + 8]}
    # the same one-level programs built from user SUBCLASSES of Pipeline / FeatureUnion / ColumnTransformer
    for named in (True, False):
        p1 = _programs(1, named)
        for i in range(0, len(p1), 8):
            yield {"named": named, "programs": p1[i:i + 8], "subclass": True}
    # wide pipelines on 12 input columns: many generated names, selectors reaching column 11, three-branch unions
    S_, M_ = ["S"], ["M"]
    ct8 = ["CT", [[M_, [0, 1, 2, 3, 4, 5, 6, 7]]], "passthrough"]
    wide = [["FU", ["FU", S_, ct8], M_],
            ["CT", [[["FU", S_, M_], [1]], [S_, [11]]], "drop"],
            ["CT", [[["FU", S_, M_], [1]], [M_, [11]]], "passthrough"],
            ["FU", ["CT", [[S_, [0, 1, 2, 3, 4]]], "passthrough"], ["FU", S_, M_]],
            ["P", ["FU", S_, M_], ["FU", S_, ["CT", [[S_, [0, 1, 2, 3, 4]]], "passthrough"]]],
            ["CT", [[["FU", S_, M_], [1]], [["FU", M_, S_], [10, 11]]], "passthrough"],
            ["FU", ["FU", S_, M_], ["FU", ct8, S_]]]
    for i in range(0, len(wide), 2):
        yield {"named": False, "programs": wide[i:i + 2], "ncols": 12}
    # column names containing the characters DOT record labels give a meaning to ({ } | < >): edges must still start at declared nodes
    mp = {"a": "size|cm", "b": "a{b}", "c": "x<y>"}

    def ren(p):
        if p[0] == "CT":
            return ["CT", [[ren(c[0]), [mp.get(x, x) for x in c[1]]] for c in p[1]], p[2]]
        if p[0] in ("FU", "P"):
            return [p[0]] + [ren(q) for q in p[1:]]
        return p
    sp = [ren(p) for p in _programs(1, True) if p[0] == "CT"]
    for i in range(0, len(sp), 8):
        yield {"named": True, "programs": sp[i:i + 8], "special_names": True}
    # degenerate but legal shapes: a ColumnTransformer entry selecting zero columns, a one-entry union around it, a single-step pipeline
    for named in (True, False):
        c3 = ["a", "b", "c"] if named else [0, 1, 2]
        degenerate = [["CT", [[S_, c3], [M_, []]], "drop"], ["CT", [[M_, []], [S_, c3[:2]]], "passthrough"],
                      ["P", ["CT", [[S_, c3], [M_, []]], "drop"], M_], ["FU", S_, ["CT", [[M_, c3[1:]], [S_, []]], "drop"]]]
        yield {"named": named, "programs": degenerate}


_SUBCLASS = False
_SUBS = None


def _CONTAINER_BASES():
    from sklearn.pipeline import Pipeline, FeatureUnion
    from sklearn.compose import ColumnTransformer
    return (Pipeline, FeatureUnion, ColumnTransformer)


def _containers():
    """The three scikit-learn containers, or (case flag 'subclass') user subclasses of them: mlinsights' own PipelineCache, imblearn's
    Pipeline and many projects derive from these classes."""
    global _SUBS
    from sklearn.pipeline import Pipeline, FeatureUnion
    from sklearn.compose import ColumnTransformer
    if not _SUBCLASS:
        return Pipeline, FeatureUnion, ColumnTransformer
    if _SUBS is None:
        class ProjectPipeline(Pipeline):
            pass

        class ProjectUnion(FeatureUnion):
            pass

        class ProjectColumns(ColumnTransformer):
            pass
        for c in (ProjectPipeline, ProjectUnion, ProjectColumns):
            c.__module__ = __name__
            c.__qualname__ = c.__name__
            globals()[c.__name__] = c
        _SUBS = (ProjectPipeline, ProjectUnion, ProjectColumns)
    return _SUBS


def _build(p):
    from sklearn.preprocessing import StandardScaler, MinMaxScaler
    Pipeline, FeatureUnion, ColumnTransformer = _containers()
    if p[0] == "S":
        return StandardScaler()
    if p[0] == "M":
        return MinMaxScaler()
    if p[0] == "pass":
        return "passthrough"
    if p[0] == "FU":
        return FeatureUnion([("l", _build(p[1])), ("r", _build(p[2]))])
    if p[0] == "P":
        return Pipeline([("first", _build(p[1])), ("second", _build(p[2]))])
    if p[0] == "CT":
        return ColumnTransformer([("t%d" % i, _build(c[0]), list(c[1])) for i, c in enumerate(p[1])], remainder=p[2])
    raise KeyError(p)


def _ref_enum(obj, coor=(0,), fitted=False):
    """Independent enumeration: (coordinate, object or 'passthrough')."""
    from sklearn.pipeline import Pipeline, FeatureUnion
    from sklearn.compose import ColumnTransformer
    yield coor, obj
    if isinstance(obj, Pipeline):
        for i, (_, m) in enumerate(obj.steps):
            yield from _ref_enum(m, coor + (i,), fitted)
    elif isinstance(obj, FeatureUnion):
        for i, (_, m) in enumerate(obj.transformer_list):
            yield from _ref_enum(m, coor + (i,), fitted)
    elif isinstance(obj, ColumnTransformer):
        for i, (_, m, _c) in enumerate(obj.transformers):
            yield from _ref_enum(m, coor + (i,), fitted)


def _executed(obj):
    """Estimators that actually run at predict time, with Pipeline adjacency."""
    from sklearn.pipeline import Pipeline, FeatureUnion
    from sklearn.compose import ColumnTransformer
    out = [obj]
    if isinstance(obj, Pipeline):
        for _, m in obj.steps:
            if not isinstance(m, str):
                out.extend(_executed(m))
    elif isinstance(obj, FeatureUnion):
        for _, m in obj.transformer_list:
            if not isinstance(m, str):
                out.extend(_executed(m))
    elif isinstance(obj, ColumnTransformer):
        for name, m, _c in getattr(obj, "transformers_", obj.transformers):
            if isinstance(m, str) or name == "remainder" or type(m).__name__ == "FunctionTransformer":
                continue
            if hasattr(_c, "__len__") and len(_c) == 0:
                continue          # an entry selecting zero columns is skipped by scikit-learn itself: it is never executed
            out.extend(_executed(m))
    return out


class _Graph:
    """Minimal directed graph (acyclicity by DFS colouring, reachability by BFS)."""

    def __init__(self):
        self.succ = {}

    def add_edge(self, a, b):
        self.succ.setdefault(a, set()).add(b)
        self.succ.setdefault(b, set())

    @property
    def nodes(self):
        return list(self.succ)

    def out_degree(self, n):
        return len(self.succ[n])

    def acyclic(self):
        col = {}
        for root in self.succ:
            if root in col:
                continue
            stack = [(root, iter(self.succ[root]))]
            col[root] = 1
            while stack:
                n, it = stack[-1]
                for m in it:
                    if col.get(m) == 1:
                        return False
                    if m not in col:
                        col[m] = 1
                        stack.append((m, iter(self.succ[m])))
                        break
                else:
                    col[n] = 2
                    stack.pop()
        return True

    def descendants(self, a):
        seen, todo = set(), [a]
        while todo:
            n = todo.pop()
            for m in self.succ.get(n, ()):
                if m not in seen:
                    seen.add(m)
                    todo.append(m)
        return seen


def _parse_dot(text):
    """Small parser of the emitted DOT subset -> (declared nodes {name: set(ports)}, edges [(node, port, node, port)], labels)."""
    import re
    decl, edges, labels = {}, [], {}
    body = text.strip()
    if not (body.startswith("digraph{") and body.endswith("}")):
        raise ValueError("not a digraph{...}")
    for raw in body[len("digraph{"):-1].split("\n"):
        line = raw.strip()
        if not line:
            continue
        if not line.endswith(";"):
            raise ValueError("statement without ';': %r" % line)
        line = line[:-1]
        m = re.match(r"^([A-Za-z_][A-Za-z_0-9]*)\[(.*)\]$", line)
        if m:
            name, attrs = m.group(1), m.group(2)
            lab = re.search(r'label="([^"]*)"', attrs)
            if lab is None:
                raise ValueError("node without label: %r" % line)
            if name in decl:
                raise ValueError("node declared twice: %s" % name)
            decl[name] = set(re.findall(r"<([A-Za-z_0-9]+)>", lab.group(1)))
            labels[name] = lab.group(1)
            continue
        m = re.match(r"^(\S+) -> (\S+)$", line)
        if m:
            def split(e):
                if ":" in e:
                    n, p = e.split(":", 1)
                    return n, p
                return e, None
            (a, pa), (b, pb) = split(m.group(1)), split(m.group(2))
            edges.append((a, pa, b, pb))
            continue
        if re.match(r"^[a-z]+=[^;]+$", line):
            continue  # graph option
        raise ValueError("cannot parse %r" % line)
    return decl, edges, labels


def run_case(case):
    import warnings
    import copy
    import numpy
    import pandas
    from sklearn.pipeline import Pipeline
    from sklearn.linear_model import LinearRegression, LogisticRegression
    from mlinsights.helpers.pipeline import enumerate_pipeline_models, alter_pipeline_for_debugging
    from mlinsights.plotting import pipeline2dot, pipeline2str

    warnings.simplefilter("ignore")
    global _SUBCLASS
    _SUBCLASS = bool(case.get("subclass"))
    viol = []
    sigs = set()

    def bad(kind, cond, msg):
        sig = "pipeline tools|%s|%s" % (kind, cond)
        if sig not in sigs:
            sigs.add(sig)
            viol.append({"sig": sig, "msg": msg[:1200]})

    ncols = case.get("ncols", 3)
    names = list("abcdefghijkl")[:ncols]
    if case.get("special_names"):
        names = ["size|cm", "a{b}", "x<y>"]
    X = numpy.array([[(i * 3 + 2 * j) % 7 + 0.5 * j + 0.1 * (j // 3) * i for j in range(ncols)] for i in range(8)], dtype=float)
    df = pandas.DataFrame(X, columns=names)
    yreg = X.sum(axis=1)
    ycl = (numpy.arange(8) % 2)
    cnt = ntriv = skipped = 0

    def kinds(p, acc=None):
        acc = set() if acc is None else acc
        acc.add(p[0])
        for q in p[1:]:
            if isinstance(q, list) and q and isinstance(q[0], str) and q[0] in ("S", "M", "FU", "P", "CT", "pass"):
                kinds(q, acc)
            elif isinstance(q, list):
                for c in q:
                    if isinstance(c, list) and c and isinstance(c[0], list):
                        kinds(c[0], acc)
        return acc

    for prog in case["programs"]:
        ks = kinds(prog)
        shape = "+".join(sorted(k for k in ks if k in ("FU", "CT", "P"))) or "leaf"
        if "pass" in ks:
            shape += "+passthrough"
        for final in ("none", "reg", "clf", "kmeans", "lda"):
            def make():
                t = _build(prog)
                if final == "none":
                    return t if not isinstance(t, str) else None
                # final steps with prediction methods only, and final steps that have BOTH transform and prediction methods
                from sklearn.cluster import KMeans
                from sklearn.discriminant_analysis import LinearDiscriminantAnalysis
                fin = {"reg": LinearRegression, "clf": LogisticRegression, "lda": LinearDiscriminantAnalysis,
                       "kmeans": lambda: KMeans(n_clusters=2, n_init=2, random_state=0)}[final]()
                return Pipeline([("prep", t), ("model", fin)])
            pipe = make()
            if pipe is None:
                continue
            cnt += 1
            if ks & {"FU", "CT"}:
                ntriv += 1
            desc = "program=%r final=%s columns=%s" % (prog, final, "named" if case["named"] else "integer")
            data = df if case["named"] else X
            # ---------------------------------------------------------------- enumeration (unfitted and fitted)
            invalid = False
            # validity first: only programs scikit-learn itself can fit
            try:
                make().fit(data, ycl if final in ("clf", "lda") else yreg)
            except Exception:
                skipped += 1
                cnt -= 1
                if ks & {"FU", "CT"}:
                    ntriv -= 1
                continue
            for state in ("unfitted", "fitted"):
                if state == "fitted":
                    try:
                        pipe.fit(data, ycl if final in ("clf", "lda") else yreg)
                    except Exception as ex:
                        invalid = True   # not a program scikit-learn can fit with this schema: outside the quantifier
                        break
                try:
                    got = list(enumerate_pipeline_models(pipe))
                except Exception as ex:
                    bad("enumerate_pipeline_models raises %s" % type(ex).__name__, "%s,%s" % (state, shape), "%s %s" % (str(ex)[:200], desc))
                    continue
                ref = list(_ref_enum(pipe))
                gc = [g[0] for g in got]
                if len(set(gc)) != len(gc):
                    bad("coordinates not distinct", "%s,%s" % (state, shape), "%r %s" % (gc, desc))
                if gc != [r[0] for r in ref]:
                    bad("enumeration order/coordinates differ from the nesting (parents first, one coordinate per level)",
                        "%s,%s" % (state, shape), "got %r expected %r %s" % (gc, [r[0] for r in ref], desc))
                else:
                    for (c1, m1, _v), (c2, m2) in zip(got, ref):
                        if isinstance(m2, str):
                            if type(m1).__name__ != "PassThrough":
                                bad("passthrough not yielded as such", "%s,%s" % (state, shape), desc)
                        elif m1 is not m2:
                            bad("yielded object is not the nested estimator", "%s,%s" % (state, shape), "%r %s" % (c1, desc))
                try:
                    txt = pipeline2str(pipe)
                    lines = txt.split("\n")
                    if len(lines) != len(got):
                        bad("pipeline2str: number of lines != number of models", "%s,%s" % (state, shape), "%d vs %d %s" % (len(lines), len(got), desc))
                    else:
                        for ln, (c, m, _v) in zip(lines, got):
                            ind = len(ln) - len(ln.lstrip(" "))
                            if ind != 3 * (len(c) - 1) or not ln.strip().startswith(type(m).__name__):
                                bad("pipeline2str: indentation or name wrong", "%s,%s" % (state, shape), "%r for %r %s" % (ln, c, desc))
                                break
                except Exception as ex:
                    bad("pipeline2str raises %s" % type(ex).__name__, "%s,%s" % (state, shape), "%s %s" % (str(ex)[:200], desc))
            # ---------------------------------------------------------------- DOT
            schemas = [("frame", df), ("names", list(names))] if case["named"] else [("array", X), ("frame", df), ("names", list(names))]
            for sname, sch in schemas:
                cond = "%s,%s,final=%s" % (sname, shape, "none" if final == "none" else "predictor")
                try:
                    dot = pipeline2dot(pipe, sch)
                except Exception as ex:
                    feature = ("ColumnTransformer with remainder=passthrough nested in a ColumnTransformer with integer columns"
                               if _nested_pass_ct_in_int_ct(prog) else cond)
                    bad("pipeline2dot raises %s" % type(ex).__name__, feature, "%s %s schema=%s" % (str(ex)[:300], desc, sname))
                    continue
                try:
                    decl, edges, labels = _parse_dot(dot)
                except ValueError as ex:
                    bad("pipeline2dot output is not well formed", cond, "%s %s\n%s" % (ex, desc, dot[:600]))
                    continue
                g = _Graph()
                okdecl = True
                for a, pa, b, pb in edges:
                    for n, p in ((a, pa), (b, pb)):
                        if n not in decl:
                            bad("pipeline2dot: edge endpoint is not a declared node", cond, "%s in %s -> %s %s\n%s" % (n, a, b, desc, dot[:900]))
                            okdecl = False
                        elif p is not None and p not in decl[n]:
                            bad("pipeline2dot: edge endpoint uses an undeclared port", cond, "%s:%s %s\n%s" % (n, p, desc, dot[:900]))
                            okdecl = False
                    g.add_edge(a, b)
                if not okdecl:
                    continue
                if not g.acyclic():
                    bad("pipeline2dot: graph has a cycle", cond, "%s\n%s" % (desc, dot[:900]))
                    continue
                if "sch0" not in decl:
                    bad("pipeline2dot: no input schema node", cond, desc)
                    continue
                colnames = list(names) if sname != "array" else ["X%d" % i_ for i_ in range(ncols)]
                for cn in colnames:
                    if case.get("special_names"):
                        esc = cn.replace("|", "\\|").replace("{", "\\{").replace("}", "\\}").replace("<", "\\<").replace(">", "\\>")
                        if cn not in labels["sch0"] and esc not in labels["sch0"]:
                            bad("pipeline2dot: an input column is missing from the input schema", cond, "%s %s" % (cn, desc))
                    elif cn not in [t.split("> ")[-1] for t in labels["sch0"].split("|")]:
                        bad("pipeline2dot: an input column is missing from the input schema", cond, "%s %s" % (cn, desc))
                alll = list(labels.values())
                for _c, m in _ref_enum(pipe):
                    nm = "Identity" if isinstance(m, str) else type(m).__name__
                    if not isinstance(m, str) and isinstance(m, _CONTAINER_BASES()):
                        continue      # containers (and their subclasses) are drawn through their children
                    if nm not in alll:
                        bad("pipeline2dot: a step does not appear", cond, "%s %s\n%s" % (nm, desc, dot[:900]))
                        break
                sinks = [n for n in g.nodes if g.out_degree(n) == 0]
                # (a second sink = an intermediate output nobody consumes is ugly but not excluded by the statement:
                #  only declared endpoints, acyclicity, presence of steps/columns and reachability of the outputs are)
                reach = g.descendants("sch0")
                lost = [n for n in sinks if n not in reach and n != "sch0"]
                if lost or not sinks:
                    bad("pipeline2dot: a final output is not reachable from the inputs", cond, "%r %s\n%s" % (lost, desc, dot[:900]))
            # ---------------------------------------------------------------- debugging
            P = data.iloc[:4] if case["named"] else X[:4]
            meths = [mm for mm in ("predict", "predict_proba", "decision_function", "transform") if hasattr(pipe, mm)]
            before = {}
            for mm in meths:
                try:
                    before[mm] = numpy.asarray(getattr(pipe, mm)(P))
                except Exception:
                    pass
            cond = "%s,final=%s" % (shape, "none" if final == "none" else "predictor")
            try:
                alter_pipeline_for_debugging(pipe)
            except Exception as ex:
                bad("alter_pipeline_for_debugging raises %s" % type(ex).__name__, cond, "%s %s" % (str(ex)[:200], desc))
                continue
            for mm in before:
                try:
                    after = numpy.asarray(getattr(pipe, mm)(P))
                except Exception as ex:
                    bad("%s raises %s after alter_pipeline_for_debugging" % (mm, type(ex).__name__), cond, "%s %s" % (str(ex)[:200], desc))
                    continue
                if after.shape != before[mm].shape or not numpy.array_equal(after, before[mm]):
                    bad("output changed by alter_pipeline_for_debugging", cond, "%s %s" % (mm, desc))
                # the call just made is the last one: the pipeline and its final step must hold its input and output under the
                # name of the method that was called
                if isinstance(pipe, Pipeline):
                    fin_ = pipe.steps[-1][1]
                    for who, obj_, want_in in (("the pipeline", pipe, P), ("the final step", fin_, None)):
                        dbg = getattr(obj_, "_debug", None)
                        if isinstance(obj_, str):
                            continue
                        rec_o = None if dbg is None else dbg.outputs.get(mm)
                        rec_i = None if dbg is None else dbg.inputs.get(mm)
                        mcond = "%s,final step has %s" % (cond, "transform and prediction methods" if hasattr(fin_, "transform") and hasattr(fin_, "predict")
                                                          else ("prediction methods" if hasattr(fin_, "predict") else "transform"))
                        if rec_o is None or rec_i is None:
                            bad("%s did not record the call of a method" % who, mcond, "%s.%s %s" % (type(obj_).__name__, mm, desc))
                            continue
                        ro = numpy.asarray(rec_o)
                        if ro.shape != after.shape or not numpy.array_equal(ro, after):
                            bad("%s recorded another output than the one returned" % who, mcond, "%s.%s %s" % (type(obj_).__name__, mm, desc))
                        if want_in is not None:
                            ri = numpy.asarray(rec_i)
                            if ri.shape != numpy.asarray(want_in).shape or not numpy.array_equal(ri, numpy.asarray(want_in)):
                                bad("%s recorded another input than the one given" % who, mcond, "%s.%s %s" % (type(obj_).__name__, mm, desc))
                        elif len(pipe.steps) >= 2 and not isinstance(pipe.steps[-2][1], str):
                            dprev = getattr(pipe.steps[-2][1], "_debug", None)
                            po = None if dprev is None else dprev.outputs.get("transform")
                            if po is not None and (numpy.asarray(po).shape != numpy.asarray(rec_i).shape or not numpy.array_equal(numpy.asarray(po), numpy.asarray(rec_i))):
                                bad("consecutive steps do not chain", mcond, "%s -> %s.%s %s" % (type(pipe.steps[-2][1]).__name__, type(obj_).__name__, mm, desc))
            # a deep copy of the instrumented pipeline, called on another batch: each of the two objects holds ITS last input / output
            import copy as _copy
            try:
                twin = _copy.deepcopy(pipe)
                P2 = P[:max(2, len(P) // 2)] if not hasattr(P, "iloc") else P.iloc[:max(2, len(P) // 2)]
                for mm in before:
                    getattr(twin, mm)(P2)
                    if isinstance(pipe, Pipeline) and not isinstance(pipe.steps[-1][1], str):
                        for who, obj_, want_rows in (("the original", pipe, len(P)), ("the deep copy", twin, len(P2))):
                            for part, o_ in (("pipeline", obj_), ("final step", obj_.steps[-1][1])):
                                dbg = getattr(o_, "_debug", None)
                                rec_i = None if dbg is None else dbg.inputs.get(mm)
                                rec_o = None if dbg is None else dbg.outputs.get(mm)
                                if rec_i is None or rec_o is None or len(rec_i) != want_rows or len(rec_o) != want_rows:
                                    bad("after a deep copy was called, %s does not hold its own last input/output" % who, cond,
                                        "%s %s.%s: recorded %r rows, it last received %d %s" % (part, type(o_).__name__, mm, None if rec_i is None else len(rec_i), want_rows, desc))
            except Exception as ex:
                bad("deep copy of an instrumented pipeline raises %s" % type(ex).__name__, cond, "%s %s" % (str(ex)[:200], desc))
            for est in _executed(pipe):
                dbg = getattr(est, "_debug", None)
                if dbg is None or not dbg.inputs or set(dbg.inputs) != set(dbg.outputs):
                    bad("an executed step recorded nothing", "%s,step=%s" % (cond, "ColumnTransformer child" if _is_ct_child(pipe, est) else type(est).__name__),
                        "%s %s" % (type(est).__name__, desc))
            for est in _executed(pipe):
                if isinstance(est, Pipeline):
                    steps = [m for _, m in est.steps if not isinstance(m, str)]
                    for s1, s2 in zip(steps[:-1], steps[1:]):
                        d1, d2 = getattr(s1, "_debug", None), getattr(s2, "_debug", None)
                        if d1 is None or d2 is None or not d1.outputs or not d2.inputs:
                            continue
                        o = d1.outputs.get("transform")
                        i2 = list(d2.inputs.values())[-1]
                        if o is None or numpy.asarray(o).shape != numpy.asarray(i2).shape or not numpy.array_equal(numpy.asarray(o), numpy.asarray(i2)):
                            bad("consecutive steps do not chain", cond, "%s -> %s %s" % (type(s1).__name__, type(s2).__name__, desc))
    return {"viol": viol, "nontrivial": ntriv > 0, "states": cnt, "transitions": cnt * 6, "outcome": (case["named"], len(case["programs"])), "counters": {"programs_not_fittable_by_sklearn_skipped": skipped}}


def _nested_pass_ct_in_int_ct(p, inside_int_ct=False):
    if not isinstance(p, list) or not p:
        return False
    if p[0] == "CT":
        if inside_int_ct and p[2] == "passthrough":
            return True
        for child, cols in p[1]:
            if _nested_pass_ct_in_int_ct(child, all(isinstance(c, int) for c in cols)):
                return True
        return False
    if p[0] in ("FU", "P"):
        return any(_nested_pass_ct_in_int_ct(q, inside_int_ct) for q in p[1:])
    return False


def _is_ct_child(pipe, est):
    from sklearn.compose import ColumnTransformer
    from sklearn.pipeline import Pipeline, FeatureUnion

    def walk(o, under_ct):
        if o is est:
            return under_ct
        if isinstance(o, Pipeline):
            for _, m in o.steps:
                if not isinstance(m, str):
                    r = walk(m, under_ct)
                    if r is not None:
                        return r
        elif isinstance(o, FeatureUnion):
            for _, m in o.transformer_list:
                if not isinstance(m, str):
                    r = walk(m, under_ct)
                    if r is not None:
                        return r
        elif isinstance(o, ColumnTransformer):
            for _n, m, _c in getattr(o, "transformers_", o.transformers):
                if not isinstance(m, str):
                    r = walk(m, True)
                    if r is not None:
                        return r
        return None
    return bool(walk(pipe, False))
