"""C02 — fit/predict never alter hyper-parameters or caller data, even when fit fails (H x E).

For every catalogue configuration (plus meta-estimators built around fault-injecting inner estimators) every
sequence of operations up to the depth bound over
  {fit(D0), fit(D1), fit(bad: inf / length mismatch / one row / 1-D X), predict-family(P), fit with the k-th inner
   fit raising, for EVERY k}
is executed on a real object. On every transition: get_params(deep=True) unchanged, caller arrays byte-identical,
fit returned self. After every history ending in a successful fit the model must equal a fresh clone fitted on the
same data under the same seeds (a failure earlier in the history leaves no trace).
"""
import itertools

PROPERTY = "C02"
CASE_TIMEOUT = 1500


def hang_sig(case):
    return "%s|fit or predict hangs|variant %s" % (case["cls"].split("/")[0], case["variant"])
RULE = ("every operation sequence of length <= depth over the alphabet above for every (class, configuration); fault "
        "positions k enumerated over ALL K inner fit calls measured in the fault-free run; non-trivial = the history "
        "contains a failing fit or a prediction call before the final fit")
ASSUMPTIONS = ["only hyper-parameters are compared (a caller-supplied inner estimator fitted in place changes fitted state, "
               "not hyper-parameters)",
               "a bad-data kind counts as a failing fit only if it really raises; otherwise it is one more training set",
               "model equality: outputs on a probe set and documented fitted attributes, rtol 1e-9"]


def bounds(tier):
    return {"depth": 3 if tier == "quick" else 4,
            "layouts": ["C", "F", "strided", "negative", "transposed", "readonly"],
            "layout_depth": 2 if tier == "quick" else 3}


def _faulty_variants():
    """Meta-estimators around fault-injecting inner estimators: name -> (kind, factory(plan))."""
    import mlinsights.mlmodel as M
    import mlinsights.sklapi as S
    from sklearn.tree import DecisionTreeRegressor, DecisionTreeClassifier
    from sklearn.cluster import KMeans
    FR, FC, FK, FI = _faulty_classes()
    return {
        "ConstraintKMeans/faulty init": ("cluster", lambda pl: M.ConstraintKMeans(n_clusters=2, init=FI(pl), n_init=1, max_iter=6, random_state=0)),
        "ConstraintKMeans/faulty init, gain": ("cluster", lambda pl: M.ConstraintKMeans(n_clusters=2, init=FI(pl), n_init=2, max_iter=5, strategy="gain", random_state=0)),
        "KMeansL1L2/faulty init L2": ("cluster", lambda pl: M.KMeansL1L2(n_clusters=2, init=FI(pl), n_init=1, norm="L2", random_state=0)),
        "PiecewiseRegressor/faulty estimator": ("reg", lambda pl: M.PiecewiseRegressor(DecisionTreeRegressor(max_depth=2), FR(plan=pl))),
        "PiecewiseRegressor/faulty binner": ("reg", lambda pl: M.PiecewiseRegressor(FR(plan=pl, tree=True), FR(plan=pl))),
        "PiecewiseClassifier/faulty estimator": ("clf", lambda pl: M.PiecewiseClassifier(DecisionTreeClassifier(max_depth=2), FC(plan=pl), random_state=0)),
        "IntervalRegressor/faulty estimator": ("reg", lambda pl: M.IntervalRegressor(FR(plan=pl), n_estimators=3)),
        "ClassifierAfterKMeans/faulty estimator": ("clf", lambda pl: M.ClassifierAfterKMeans(estimator=FC(plan=pl), clus=KMeans(n_clusters=2, n_init=1, random_state=0))),
        "ClassifierAfterKMeans/faulty clus": ("clf", lambda pl: M.ClassifierAfterKMeans(clus=FK(plan=pl))),
        "TransformedTargetRegressor2/faulty regressor": ("reg", lambda pl: M.TransformedTargetRegressor2(FR(plan=pl), "log")),
        "TransformedTargetClassifier2/faulty classifier": ("clf", lambda pl: M.TransformedTargetClassifier2(FC(plan=pl), M.PermutationReciprocalTransformer(random_state=1))),
        "DecisionTreeLogisticRegression/faulty estimator": ("clf", lambda pl: M.DecisionTreeLogisticRegression(estimator=FC(plan=pl), max_depth=3, fit_improve_algo="none")),
        "SkBaseTransformStacking/faulty members": ("clf", lambda pl: S.SkBaseTransformStacking([FR(plan=pl), FR(plan=pl)], "predict")),
    }


class Plan:
    verif_canon = "Plan"   # the harness object is not a hyper-parameter value

    def __init__(self):
        self.calls = 0
        self.fail_at = None

    def __deepcopy__(self, memo):
        return self

    def __repr__(self):
        return "Plan()"


_FC = None


def _faulty_classes():
    global _FC
    if _FC is not None:
        return _FC
    import numpy
    from sklearn.base import BaseEstimator, RegressorMixin, ClassifierMixin, TransformerMixin, ClusterMixin
    from sklearn.tree import DecisionTreeRegressor, DecisionTreeClassifier
    from sklearn.linear_model import LinearRegression
    from sklearn.cluster import KMeans

    class Injected(RuntimeError):
        pass

    def tick(plan):
        plan.calls += 1
        if plan.fail_at is not None and plan.calls - 1 == plan.fail_at:
            if getattr(plan, "exc", None) == "interrupt":
                # the inner estimator is interrupted (what Ctrl-C during a long inner fit delivers): not an Exception subclass
                raise KeyboardInterrupt("injected interruption of inner fit #%d" % plan.fail_at)
            raise Injected("injected failure at inner fit #%d" % plan.fail_at)

    class FaultyRegressor(DecisionTreeRegressor):
        def __init__(self, plan=None, tree=False, max_depth=2, random_state=0):
            DecisionTreeRegressor.__init__(self, max_depth=max_depth, random_state=random_state)
            self.plan = plan
            self.tree = tree

        def fit(self, X, y, sample_weight=None, check_input=True):
            tick(self.plan)
            return DecisionTreeRegressor.fit(self, X, y, sample_weight=sample_weight)

    class FaultyClassifier(DecisionTreeClassifier):
        def __init__(self, plan=None, max_depth=2, random_state=0):
            DecisionTreeClassifier.__init__(self, max_depth=max_depth, random_state=random_state)
            self.plan = plan

        def fit(self, X, y, sample_weight=None, check_input=True):
            tick(self.plan)
            return DecisionTreeClassifier.fit(self, X, y, sample_weight=sample_weight)

    class FaultyKMeans(KMeans):
        def __init__(self, plan=None, n_clusters=2, n_init=1, random_state=0):
            KMeans.__init__(self, n_clusters=n_clusters, n_init=n_init, random_state=random_state)
            self.plan = plan

        def fit(self, X, y=None, sample_weight=None):
            tick(self.plan)
            return KMeans.fit(self, X, y, sample_weight=sample_weight)

    class FaultyInit:
        """A callable `init` (scikit-learn calls it as init(X, n_clusters, random_state)): the initialisation step is the inner
        computation that can fail."""
        verif_canon = "FaultyInit"

        def __init__(self, plan):
            self.plan = plan

        def __deepcopy__(self, memo):
            return self

        def __call__(self, X, n_clusters, random_state=None):
            tick(self.plan)
            U = numpy.unique(numpy.asarray(X), axis=0)
            idx = numpy.linspace(0, len(U) - 1, n_clusters).round().astype(int)
            return U[idx].astype(numpy.float64)

    _FC = (FaultyRegressor, FaultyClassifier, FaultyKMeans, FaultyInit)
    return _FC


def cases(tier, seed):
    from mcheck import loader
    loader.load()
    from checks import catalog as K
    b = bounds(tier)
    for name, e in K.catalogue().items():
        if not e["fit"]:
            continue
        for v in e["variants"]:
            for lay in b["layouts"]:
                K_ = 1 if tier == "quick" else (6 if lay == "C" else 2)
                for k in range(K_):
                    # thorough: the histories of the deepest level are split over K_ cases (index modulo K_)
                    yield {"cls": name, "variant": v, "depth": b["depth"] if lay == "C" else b["layout_depth"], "layout": lay, "slice": [k, K_]}
    yield {"cls": "TimeSeriesDifference", "variant": "ts-preprocessing", "depth": 0, "layout": "C", "slice": [0, 1]}
    for name in _faulty_variants():
        K_ = 1 if tier == "quick" else 6
        for k in range(K_):
            # quick: the interruption kind of inner failure is explored to depth 2 (failure, then a fit compared with a fresh clone),
            # the Exception kind to the full depth; thorough: both kinds to the full depth
            yield {"cls": name, "variant": "faulty", "depth": b["depth"], "layout": "C", "slice": [k, K_], "interrupt": tier != "quick"}
        if tier == "quick":
            yield {"cls": name, "variant": "faulty", "depth": 2, "layout": "C", "slice": [0, 1], "interrupt": True}


def _layout(a, lay):
    import numpy
    if not isinstance(a, numpy.ndarray):
        return a
    if lay == "C" or a.dtype.kind not in "iufb" or a.ndim not in (1, 2):
        return numpy.array(a, order="C", copy=True)
    from checks.catalog import layouts
    nm = {"F": ("column of a C-ordered table", "Fortran order"), "strided": ("every second element", "strided window of a larger table"),
          "negative": ("negative stride", "negative strides"), "transposed": ("column of a C-ordered table", "transposed window"),
          "readonly": ("read-only", "read-only")}[lay][a.ndim - 1]
    return dict(layouts(a))[nm]


def _dig(v):
    import numpy
    import hashlib
    if v is None:
        return None
    if isinstance(v, numpy.ndarray):
        # a view: the buffer it is cut from counts as caller data as well
        base = v.base if isinstance(v.base, numpy.ndarray) else None
        return (str(v.dtype), v.shape, hashlib.sha1(numpy.ascontiguousarray(v).tobytes()).hexdigest(),
                None if base is None else hashlib.sha1(numpy.ascontiguousarray(base).tobytes()).hexdigest())
    if hasattr(v, "to_json"):
        return v.to_json()
    return repr(v)


def _ts_preprocessing(case):
    """The reciprocal time-series transformers (fit / transform / inverse on (X, y, weights)): same clauses, every degree, dtype and layout."""
    import numpy
    from checks import catalog as K
    from mlinsights.timeseries.preprocessing import TimeSeriesDifference
    viol, sigs = [], set()

    def bad(kind, cond, msg):
        sig = "TimeSeriesDifference|%s|%s" % (kind, cond)
        if sig not in sigs:
            sigs.add(sig)
            viol.append({"sig": sig, "msg": msg})
    cnt = 0
    for degree in (1, 2, 3):
        for dt in (numpy.float64, numpy.float32, numpy.int64):
            y0 = numpy.array([3, 4, 7, 12, 14, 11, 20], dtype=dt)
            X0 = numpy.arange(14, dtype=dt).reshape(7, 2) + 1
            w0 = numpy.array([1, 2, 1, 3, 1, 2, 1], dtype=numpy.float64)
            for (lname, yl), (_, Xl), (_, wl) in zip(K.layouts(y0), [l for l in K.layouts(X0) if l[0] != "transposed window"], K.layouts(w0)):
                for with_w in (False, True):
                    desc = "degree=%d dtype=%s layout=%s weights=%s" % (degree, numpy.dtype(dt).name, lname, with_w)
                    est = TimeSeriesDifference(degree)
                    before = est.get_params()
                    ys_, Xs_, ws_ = numpy.array(yl, copy=True), numpy.array(Xl, copy=True), numpy.array(wl, copy=True)
                    cnt += 1
                    for opname, op in (("fit", lambda: est.fit(Xl, yl, wl if with_w else None)),
                                       ("transform", lambda: est.transform(Xl, yl, wl if with_w else None)),
                                       ("inverse transform", lambda: est.get_fct_inv().transform(*est.transform(Xl, yl, wl if with_w else None)))):
                        try:
                            r = op()
                        except Exception:
                            r = None
                        if opname == "fit" and r is not None and r is not est:
                            bad("fit does not return the estimator", "returns %s" % type(r).__name__, desc)
                        if not (numpy.array_equal(yl, ys_) and numpy.array_equal(Xl, Xs_) and numpy.array_equal(wl, ws_)):
                            bad("caller data modified by %s" % opname, opname, desc)
                            break
                        if est.get_params() != before:
                            bad("hyper-parameters changed by %s" % opname, opname, desc)
    return {"viol": viol, "nontrivial": True, "states": cnt, "transitions": cnt * 3, "outcome": ("ts-preprocessing",)}


def run_case(case):
    import warnings
    import numpy
    from checks import catalog as K
    if case["variant"] == "ts-preprocessing":
        return _ts_preprocessing(case)

    warnings.simplefilter("ignore")
    viol = []
    sigs = set()
    cls = case["cls"]
    lay = case["layout"]

    def bad(kind, cond, msg):
        sig = "%s|%s|%s" % (cls.split("/")[0], kind, cond)
        if sig not in sigs:
            sigs.add(sig)
            viol.append({"sig": sig, "msg": msg[:900]})

    plan = Plan()
    if case["variant"] == "faulty":
        kind, fac = _faulty_variants()[cls]
        make = lambda: fac(plan)
    else:
        e = K.catalogue()[cls]
        kind = e["kind"]
        make = e["variants"][case["variant"]]
    arrays = kind in ("reg", "clf", "cluster", "poly", "nmf", "recip")
    D = [K.data(kind, 0), K.data(kind, 2)]

    def dataset(op):
        """(X, y, must_fail) for a fit op."""
        if op[0] in ("fit", "fitw"):
            d = D[op[1]]
            return _layout(d["X"], lay), _layout(d.get("y"), lay), False
        d = D[0]
        X, y = numpy.array(d["X"], copy=True), (None if d.get("y") is None else numpy.array(d["y"], copy=True))
        if op[1] == "inf":
            X[1, 0] = numpy.inf
        elif op[1] == "len":
            if y is None:
                return None
            y = y[:-2]
        elif op[1] == "one":
            X = X[:1]
            y = None if y is None else y[:1]
        elif op[1] == "dim":
            X = X[:, 0]
        return X, y, True

    # measure K (number of inner fit calls in a fault-free fit) for fault variants
    Kfault = 0
    if case["variant"] == "faulty":
        plan.calls, plan.fail_at = 0, None
        numpy.random.seed(0)
        m0 = make()
        K.fit(m0, kind, D[0])
        Kfault = plan.calls
        if Kfault == 0:
            raise AssertionError("fault plan never consulted for %s" % cls)
    import inspect
    ops = [("fit", 0), ("fit", 1), ("pred",)]
    try:
        takes_w = "sample_weight" in inspect.signature(make().fit).parameters
    except Exception:
        takes_w = False
    if takes_w and arrays and kind in ("reg", "clf", "cluster"):
        ops.append(("fitw", 0))
    if arrays:
        ops += [("bad", "inf"), ("bad", "len"), ("bad", "one"), ("bad", "dim")]
    ops += [("fault", k) for k in range(Kfault)]
    if case.get("interrupt", True):
        ops += [("fault", k, "interrupt") for k in range(Kfault)]
    ops = [o for o in ops if not (o[0] == "bad" and dataset(o) is None)]

    def do_fit(est, X, y, w=None):
        if w is not None:
            return est.fit(X, y, sample_weight=w) if y is not None else est.fit(X, sample_weight=w)
        if kind == "ts":
            return est.fit(None, y)
        if y is None:
            return est.fit(X)
        return est.fit(X, y)

    fresh_cache = {}

    def fresh_obs(i):
        if i not in fresh_cache:
            plan.calls, plan.fail_at = 0, None
            numpy.random.seed(0)
            f = make()
            try:
                do_fit(f, _layout(D[i].get("X"), lay), _layout(D[i].get("y"), lay))     # same memory layout as the history
                fresh_cache[i] = ("ok", K.observe(f, kind, D[i]))
            except Exception as e:
                fresh_cache[i] = ("raises", type(e).__name__)
        return fresh_cache[i]

    cnt = trans = ntriv = 0
    sl = case.get("slice", [0, 1])
    for depth in range(1, case["depth"] + 1):
        for hno, hist in enumerate(itertools.product(ops, repeat=depth)):
            if depth == case["depth"] and hno % sl[1] != sl[0]:
                continue
            if depth < case["depth"] and sl[0] != 0:
                continue
            if hist[-1][0] not in ("fit",) and depth > 1 and hist[-1][0] == "pred" and hist[-2][0] == "pred":
                continue
            cnt += 1
            plan.calls, plan.fail_at = 0, None
            try:
                est = make()
            except Exception as e:
                bad("constructor raises %s" % type(e).__name__, "fresh", str(e)[:200])
                break
            fitted = False
            hdesc = "variant=%s layout=%s history=%r" % (case["variant"], lay, list(hist))
            for step, op in enumerate(hist):
                trans += 1
                try:
                    before = K.flat_params(est)
                except Exception as e:
                    bad("get_params raises %s" % type(e).__name__, "during history", "%s %s" % (e, hdesc))
                    break
                numpy.random.seed(0)
                plan.calls, plan.fail_at = 0, None
                opname = op[0] if op[0] != "bad" else "fit(bad:%s)" % op[1]
                if op[0] in ("fit", "fitw", "bad", "fault"):
                    w = None
                    if op[0] == "fitw":
                        w = _layout(1.0 + (numpy.arange(D[0]["X"].shape[0]) % 3).astype(numpy.float64), lay)
                    dw = _dig(w)
                    if op[0] == "fault":
                        X, y, must = _layout(D[0]["X"], lay), _layout(D[0].get("y"), lay), True
                        plan.fail_at = op[1]
                        plan.exc = op[2] if len(op) > 2 else None
                    else:
                        X, y, must = dataset(op)
                    dX, dy = _dig(X), _dig(y)
                    raised = None
                    try:
                        r = do_fit(est, X, y, w)
                        if r is not est:
                            bad("fit does not return the estimator", "returns %s" % type(r).__name__, hdesc)
                        fitted = True
                    except Exception as e:
                        raised = e
                    except KeyboardInterrupt as e:
                        if op[0] != "fault" or "injected interruption" not in str(e):
                            raise
                        raised = e
                    plan.fail_at = None
                    plan.exc = None
                    if op[0] == "fault" and raised is None:
                        bad("injected inner failure swallowed by fit", "fault", "k=%d %s" % (op[1], hdesc))
                    if _dig(w) != dw:
                        bad("caller sample_weight modified by fit", opname, hdesc)
                    if _dig(X) != dX or _dig(y) != dy:
                        bad("caller data modified by fit", opname if op[0] != "fault" else "fit(inner failure)", hdesc)
                    try:
                        after = K.flat_params(est)
                    except Exception as e:
                        bad("get_params raises %s" % type(e).__name__, "after " + opname, "%s %s" % (e, hdesc))
                        break
                    if after != before:
                        d = [(k, before.get(k), after.get(k)) for k in sorted(set(before) | set(after)) if before.get(k) != after.get(k)]
                        bad("hyper-parameters changed by fit", ("failing " if raised is not None else "successful ") +
                            ("fit(inner failure)" if op[0] == "fault" else "fit"), "%r %s step %d" % (d[:3], hdesc, step))
                        if raised is not None:
                            break  # the object is corrupt: continuing the history proves nothing more (and may hang)
                    if op[0] == "fit" and step == depth - 1:
                        # final successful fit: must equal a fresh clone fitted on the same data
                        st, fo = fresh_obs(op[1])
                        if raised is not None:
                            if st == "ok":
                                bad("fit fails after an earlier history but succeeds on a fresh clone", "leak",
                                    "%s: %s %s" % (type(raised).__name__, str(raised)[:200], hdesc))
                        elif st == "ok":
                            if depth > 1:
                                ntriv += 1
                            try:
                                plan.calls, plan.fail_at = 0, None
                                o = K.observe(est, kind, D[op[1]])
                                d = K.same_obs(fo, o)
                                if d:
                                    prev = sorted(set(h[0] if h[0] != "bad" else "failing fit" for h in hist[:-1]))
                                    bad("model after a history differs from a fresh clone fitted on the same data",
                                        "after %s" % "+".join(prev), "%s %s" % (d, hdesc))
                            except Exception as e:
                                bad("predict raises %s after a history" % type(e).__name__, "leak", "%s %s" % (str(e)[:200], hdesc))
                    if raised is not None and op[0] == "fit" and fresh_obs(op[1])[0] == "ok" and step < depth - 1:
                        bad("fit fails after an earlier history but succeeds on a fresh clone", "leak",
                            "%s: %s %s" % (type(raised).__name__, str(raised)[:200], hdesc))
                else:  # prediction family
                    if not fitted:
                        continue
                    dat = D[0]
                    P_full = K.probes(kind, dat)
                    # batch sizes: the full probe set, and batches of one and two rows (fewer rows than buckets / clusters / workers)
                    batches = [P_full] + ([P_full[:1], P_full[:2]] if arrays else [])
                    for P in batches:
                        P = _layout(P, lay) if arrays else P
                        dP = _dig(P)
                        for meth in ("predict", "predict_proba", "transform", "score", "decision_function"):
                            if not hasattr(est, meth):
                                continue
                            try:
                                if kind == "ts":
                                    if meth == "predict":
                                        est.predict(None, dat["y"])
                                    continue
                                if kind == "recip":
                                    if meth == "transform":
                                        est.transform(P, numpy.resize(dat["y"], len(P)))
                                    continue
                                if meth == "score":
                                    yy = dat.get("y")
                                    if yy is None or not arrays:
                                        continue
                                    est.score(_layout(dat["X"], lay), _layout(yy, lay))
                                else:
                                    getattr(est, meth)(P)
                            except Exception:
                                pass
                            if _dig(P) != dP:
                                bad("caller data modified by %s" % meth, meth, hdesc)
                            try:
                                after = K.flat_params(est)
                            except Exception as e:
                                bad("get_params raises %s" % type(e).__name__, "after " + meth, "%s %s" % (e, hdesc))
                                break
                            if after != before:
                                d = [(k, before.get(k), after.get(k)) for k in sorted(set(before) | set(after)) if before.get(k) != after.get(k)]
                                bad("hyper-parameters changed by %s" % meth, meth, "%r %s" % (d[:3], hdesc))
    # weighted fits on grouped data with patterns of ZERO weights (a whole group masked out, every second row masked out) and
    # fractional / large weights elsewhere: branches for empty or weightless clusters / buckets / leaves are only reached here
    if takes_w and arrays and kind in ("reg", "clf", "cluster") and case["slice"][0] == 0 and case["variant"] != "faulty":
        g3 = numpy.array([[0.0, 0.0], [0.2, 0.1], [0.1, 0.3], [0.3, 0.2], [5.0, 5.0], [5.2, 5.1], [5.1, 5.3], [5.3, 5.2],
                          [10.0, 0.0], [10.2, 0.1], [10.1, 0.3], [10.3, 0.2]])
        yb = {"reg": g3[:, 0] * 0.5 + numpy.arange(12) % 3, "clf": numpy.array([0, 1, 0, 1] * 3), "cluster": None}[kind]
        for pname, wv in (("one group at weight 0, others 2", numpy.where(numpy.arange(12) // 4 == 1, 0.0, 2.0)),
                          ("last group at weight 0, others 0.5", numpy.where(numpy.arange(12) // 4 == 2, 0.0, 0.5)),
                          ("first group at weight 0, others 1/3/7", numpy.where(numpy.arange(12) // 4 == 0, 0.0, 1.0 + 2.0 * (numpy.arange(12) % 3) ** 1.5)),
                          ("every second row at weight 0", numpy.where(numpy.arange(12) % 2 == 0, 0.0, 4.0))):
            for nclu in (None, 3):
                est = make()
                if nclu is not None:
                    keys = [k_ for k_ in est.get_params(deep=True) if k_.rsplit("__", 1)[-1] in ("n_clusters", "c_n_clusters")]
                    if not keys:
                        continue
                    try:
                        est.set_params(**{k_: nclu for k_ in keys})
                    except Exception:
                        continue
                Xb, yw, wb = _layout(g3, lay), _layout(yb, lay), _layout(wv, lay)
                dX, dy, dw = _dig(Xb), _dig(yw), _dig(wb)
                try:
                    before = K.flat_params(est)
                except Exception:
                    continue
                cnt += 1
                trans += 1
                numpy.random.seed(0)
                wdesc = "variant=%s layout=%s weighted fit on three groups of four points, %s%s" % (
                    case["variant"], lay, pname, "" if nclu is None else ", n_clusters=3")
                raised = None
                try:
                    do_fit(est, Xb, yw, wb)
                except Exception as e_:
                    raised = e_
                if _dig(wb) != dw:
                    bad("caller sample_weight modified by fit", "fit(zero-weight groups)", wdesc)
                if _dig(Xb) != dX or _dig(yw) != dy:
                    bad("caller data modified by fit", "fit(zero-weight groups)", wdesc)
                try:
                    after = K.flat_params(est)
                    if after != before:
                        d = [(k, before.get(k), after.get(k)) for k in sorted(set(before) | set(after)) if before.get(k) != after.get(k)]
                        bad("hyper-parameters changed by fit", ("failing " if raised is not None else "successful ") + "fit(zero-weight groups)", "%r %s" % (d[:3], wdesc))
                except Exception as e_:
                    bad("get_params raises %s" % type(e_).__name__, "after fit(zero-weight groups)", "%s %s" % (e_, wdesc))
    return {"viol": viol, "nontrivial": ntriv > 0, "states": cnt, "transitions": trans,
            "outcome": (cls, case["variant"], Kfault), "counters": {"fault_positions": Kfault, "histories_with_final_fit_compared": ntriv}}
