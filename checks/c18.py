"""C18 — correlation and comparable-score metrics are well defined (E x I).

non_linear_correlations: tables with 6 rows, columns from a menu (increasing, repeated values, constant, collinear,
non-monotone), two models, *every* 3/3 train/test split per draw through a scripted splitter bound to the name
train_test_split of the module (fallback: enumerate global seeds), frame vs array.
r2_score_comparable: every (y, p) over a positive alphabet x (tr, inv_tr) in {None,'log','exp',callable}^2.
"""
import itertools

PROPERTY = "C18"
RULE = ("every table of 2..3 columns from a 7-column menu (6 rows) x model x every 3/3 split script (20 per draw; 400 for "
        "draws=2 on a sub-menu) x frame/array; r2: every (y, p) in alphabet^n x 16 (tr, inv_tr) pairs. "
        "non-trivial = table has no constant column / y not constant")
ASSUMPTIONS = ["the answer of train_test_split is owned by the harness: every 3/3 split is scripted; a conformance pass checks that "
               "the real splitter reaches every scripted split over the seed space [0,3000)",
               "unit diagonal is demanded only when the training half of the column is not constant (otherwise no model "
               "can learn the identity from it) or the whole column is constant"]

COLS = {
    "inc": [0.0, 1.0, 2.0, 3.0, 4.0, 5.0],
    "rep": [0.0, 0.0, 1.0, 1.0, 2.0, 2.0],
    "const": [3.0, 3.0, 3.0, 3.0, 3.0, 3.0],
    "lin": [1.0, 3.0, 5.0, 7.0, 9.0, 11.0],      # collinear with inc
    "vee": [2.0, 1.0, 0.0, 0.5, 1.5, 2.5],
    "sq": [0.0, 1.0, 4.0, 9.0, 16.0, 25.0],
    "mix": [5.0, -1.0, 2.0, 2.0, 0.0, 7.0],
}


def bounds(tier):
    return {"tables": 56, "splits_per_draw": 20, "draws2_tables": 3 if tier == "quick" else 12,
            "r2_n": 3 if tier == "quick" else 4}


def cases(tier, seed):
    names = sorted(COLS)
    tabs = [list(c) for r in (2, 3) for c in itertools.combinations(names, r)]
    for t in tabs:
        for model in ("linear", "tree"):
            yield {"kind": "cor", "cols": t, "model": model, "draws": 1, "tier": tier}
    for t in tabs[::3]:
        yield {"kind": "cor", "cols": t, "model": "accum", "draws": 1, "tier": tier}
    for t in tabs[1::4]:
        for model in ("offset", "offsetlin"):
            yield {"kind": "cor", "cols": t, "model": model, "draws": 1, "tier": tier}
    for t in tabs[::max(1, len(tabs) // bounds(tier)["draws2_tables"])][:bounds(tier)["draws2_tables"]]:
        yield {"kind": "cor", "cols": t, "model": "linear", "draws": 2, "tier": tier}
    yield {"kind": "conformance"}
    n = bounds(tier)["r2_n"]
    alpha = (0.5, 1.0, 2.0, 4.0)
    ys = list(itertools.product(alpha, repeat=n))
    for i in range(0, len(ys), 8):
        yield {"kind": "r2", "ys": [list(v) for v in ys[i:i + 8]], "n": n}


_ACC = []


def _model(name):
    from sklearn.linear_model import LinearRegression
    from sklearn.tree import DecisionTreeRegressor
    if name == "accum":
        # a user estimator that keeps state between fits of the SAME object (like warm_start / partial-fit learners): it learns from
        # everything that object has been fitted on. A fresh clone per coefficient makes it an ordinary linear regression.
        if not _ACC:
            import numpy
            from sklearn.base import BaseEstimator, RegressorMixin

            class AccumulatingLinear(BaseEstimator, RegressorMixin):
                def fit(self, X, y, sample_weight=None):
                    X, y = numpy.asarray(X, dtype=float), numpy.asarray(y, dtype=float).ravel()
                    if hasattr(self, "X_seen_"):
                        X, y = numpy.vstack([self.X_seen_, X]), numpy.concatenate([self.y_seen_, y])
                    self.X_seen_, self.y_seen_ = X, y
                    self.lr_ = LinearRegression().fit(X, y)
                    return self

                def predict(self, X):
                    return self.lr_.predict(numpy.asarray(X, dtype=float))
            _ACC.append(AccumulatingLinear)
        return _ACC[0]()
    if name == "offset":
        # predictions far from the data (a constant 1e9): entries must still lie in [0, 1]
        from sklearn.dummy import DummyRegressor
        return DummyRegressor(strategy="constant", constant=1.0e9)
    if name == "offsetlin":
        from sklearn.compose import TransformedTargetRegressor
        return TransformedTargetRegressor(regressor=LinearRegression(), func=lambda v: v, inverse_func=lambda v: v + 1.0e9, check_inverse=False)
    return LinearRegression() if name == "linear" else DecisionTreeRegressor(max_depth=2, random_state=0)


class _Scripted:
    def __init__(self, script):
        self.script = list(script)
        self.k = 0

    def __call__(self, df, test_size=None, **kw):
        import numpy
        tr = self.script[self.k % len(self.script)]
        self.k += 1
        te = [i for i in range(df.shape[0]) if i not in tr]
        return df[numpy.array(tr)], df[numpy.array(te)]


def _cor(case, bad):
    import numpy
    import pandas
    import mlinsights.metrics.correlations as mod
    from mlinsights.metrics import non_linear_correlations

    cols = case["cols"]
    arr = numpy.array([COLS[c] for c in cols]).T.copy()
    frame = pandas.DataFrame(arr.copy(), columns=["v_" + c for c in cols])
    d = len(cols)
    splits = [list(s) for s in itertools.combinations(range(6), 3)]
    scripts = [[s] for s in splits] if case["draws"] == 1 else [[a, b] for a in splits for b in splits]
    cnt = 0
    cond = "model=%s,draws=%d" % (case["model"], case["draws"])
    has_seam = hasattr(mod, "train_test_split")
    orig = getattr(mod, "train_test_split", None)
    if not has_seam:
        scripts = [[g] for g in range(40)]
    try:
        for sc in scripts:
            desc = "columns=%r model=%s draws=%d split script (train rows)=%r" % (cols, case["model"], case["draws"], sc)
            res = {}
            variants = [("array", arr), ("frame", frame)]
            if case["draws"] == 1:
                # the same table behind other memory layouts (writable, so an in-place standardisation would show)
                from checks.catalog import layouts
                variants += [(nm + " array", v) for nm, v in layouts(arr) if nm in ("Fortran order", "transposed window", "negative strides")]
            if (arr == numpy.round(arr)).all():
                variants.append(("int array", arr.astype(numpy.int64)))      # same table, integer dtype
                if case.get("tier") == "thorough":
                    variants.append(("int frame", frame.astype(numpy.int64)))
            for kind, data in variants:
                data0 = data.copy()
                base0 = None if getattr(data, "base", None) is None or kind.endswith("frame") else numpy.array(data.base, copy=True)
                if has_seam:
                    mod.train_test_split = _Scripted(sc)
                else:
                    numpy.random.seed(sc[0])
                try:
                    out = non_linear_correlations(data, _model(case["model"]), draws=case["draws"], minmax=True)
                    if has_seam:
                        mod.train_test_split = _Scripted(sc)
                    else:
                        numpy.random.seed(sc[0])
                    only = non_linear_correlations(data, _model(case["model"]), draws=case["draws"])
                except Exception as e:
                    bad("raises %s" % type(e).__name__, cond, "%s %s" % (str(e)[:150], desc))
                    res = None
                    break
                cnt += 1
                same_in = data.equals(data0) if kind.endswith("frame") else numpy.array_equal(data, data0)
                if not same_in:
                    bad("input modified", cond, desc + " input=" + kind)
                if base0 is not None and not numpy.array_equal(base0, data.base):
                    bad("memory around the input view modified", cond, desc + " input=" + kind)
                if not (isinstance(out, tuple) and len(out) == 3):
                    bad("minmax=True does not return (mean, min, max)", cond, desc)
                    res = None
                    break
                mats = [numpy.asarray(m, dtype=float) for m in out]
                if any(m.shape != (d, d) for m in mats) or numpy.asarray(only).shape != (d, d):
                    bad("not a square matrix with one row/column per variable", cond, "%r %s" % ([m.shape for m in mats], desc))
                    res = None
                    break
                if not numpy.allclose(numpy.asarray(only, dtype=float), mats[0], rtol=0, atol=1e-12, equal_nan=True):
                    bad("minmax=False result differs from the mean of minmax=True", cond, desc)
                for nm, m in zip(("mean", "min", "max"), mats):
                    if numpy.isnan(m).any() or (m < -1e-12).any() or (m > 1 + 1e-12).any():
                        bad("entry outside [0, 1]", cond, "%s=%r %s" % (nm, m.tolist(), desc))
                if (mats[1] > mats[0] + 1e-12).any() or (mats[0] > mats[2] + 1e-12).any():
                    bad("min <= mean <= max violated", cond, "mean=%r min=%r max=%r %s" % (mats[0].tolist(), mats[1].tolist(), mats[2].tolist(), desc))
                if kind.endswith("frame"):
                    for m in out:
                        if not hasattr(m, "columns") or list(m.columns) != list(frame.columns) or list(m.index) != list(frame.columns):
                            bad("frame result does not keep the labels", cond, desc)
                            break
                res[kind] = mats
                if case["model"] == "accum" and kind == "array" and has_seam:
                    # one fresh model per coefficient: the stateful learner must give what the stateless one gives
                    mod.train_test_split = _Scripted(sc)
                    refm = numpy.asarray(non_linear_correlations(data, _model("linear"), draws=case["draws"]), dtype=float)
                    if not numpy.allclose(refm, mats[0], rtol=0, atol=1e-9):
                        bad("coefficients of a stateful model differ from those of one fresh model per coefficient", cond,
                            "%r vs %r %s" % (mats[0].tolist(), refm.tolist(), desc))
                if case["model"] in ("linear", "accum") and has_seam:
                    for i, c in enumerate(cols):
                        col = numpy.array(COLS[c])
                        learnable = all(len(set(col[tr].tolist())) > 1 for tr in sc) or len(set(col.tolist())) == 1
                        if learnable and abs(mats[0][i, i] - 1) > 1e-7:
                            bad("diagonal != 1 for a model able to learn the identity", cond,
                                "column %s diagonal %r %s" % (c, mats[0][i, i], desc))
            if res and "array" in res:
                for other in [k_ for k_ in res if k_ != "array"]:
                    for a, b in zip(res["array"], res[other]):
                        if not numpy.allclose(a, b, rtol=0, atol=1e-12):
                            bad("%s and array results differ under the same split" % other, cond, "%r vs %r %s" % (a.tolist(), b.tolist(), desc))
                            break
    finally:
        if has_seam:
            mod.train_test_split = orig
    return cnt, "const" not in cols


def _conformance(bad):
    """The scripted splitter must only produce answers the real one can produce."""
    import numpy
    from sklearn.model_selection import train_test_split
    seen = set()
    X = numpy.arange(6).reshape(-1, 1).astype(float)
    for g in range(3000):
        numpy.random.seed(g)
        a, b = train_test_split(X, test_size=0.5)
        if len(a) != 3 or len(b) != 3:
            raise AssertionError("real train_test_split(test_size=0.5) on 6 rows is not a 3/3 split")
        seen.add(tuple(sorted(int(v) for v in a.ravel())))
    if len(seen) != 20:
        raise AssertionError("only %d of 20 splits reached by the real splitter" % len(seen))
    return 3000, True


def _r2(case, bad):
    import numpy
    import warnings
    from sklearn.metrics import r2_score
    from mlinsights.metrics import r2_score_comparable

    warnings.simplefilter("ignore")
    n = case["n"]
    alpha = (0.5, 1.0, 2.0, 4.0)
    fn = {"log": numpy.log, "exp": numpy.exp, "sqrt": numpy.sqrt}
    opts = [None, "log", "exp", numpy.sqrt]
    cnt = 0
    for ys in case["ys"]:
        y = numpy.array(ys)
        for ps in itertools.product(alpha, repeat=n):
            p = numpy.array(ps)
            for tr in opts:
                for inv in opts:
                    cnt += 1
                    cond = "tr=%s,inv_tr=%s" % (tr if tr is None or isinstance(tr, str) else "callable",
                                                inv if inv is None or isinstance(inv, str) else "callable")
                    y0, p0 = y.copy(), p.copy()
                    try:
                        got = r2_score_comparable(y, p, tr=tr, inv_tr=inv)
                        err = None
                    except ValueError as e:
                        err = e
                    except Exception as e:
                        bad("r2_score_comparable raises %s" % type(e).__name__, cond, "%s y=%r p=%r" % (e, ys, ps))
                        continue
                    if tr is None and inv is None:
                        if err is None:
                            bad("r2_score_comparable accepts tr=None and inv_tr=None", cond, "")
                        continue
                    if err is not None:
                        bad("r2_score_comparable raises ValueError", cond, "%s y=%r p=%r" % (err, ys, ps))
                        continue
                    f = (lambda v: v) if tr is None else (fn[tr] if isinstance(tr, str) else tr)
                    g = (lambda v: v) if inv is None else (fn[inv] if isinstance(inv, str) else inv)
                    exp = r2_score(f(y), g(p))
                    if not (got == exp or (numpy.isnan(got) and numpy.isnan(exp))):
                        bad("r2_score_comparable != r2_score(f(y), g(p))", cond, "%r vs %r y=%r p=%r" % (got, exp, ys, ps))
                    if not (numpy.array_equal(y, y0) and numpy.array_equal(p, p0)):
                        bad("r2_score_comparable modifies its input", cond, "")
    # multi-output targets (n rows, 2 columns): r2_score's own default averaging over the outputs
    for ys in case["ys"][:4]:
        Y = numpy.column_stack([numpy.array(ys), numpy.array(ys)[::-1] * 3.0 + 1.0])
        for ps in list(itertools.product(alpha, repeat=n))[::7]:
            P = numpy.column_stack([numpy.array(ps), numpy.array(ps) * 0.5 + 2.0])
            for tr, inv in ((None, "log"), ("log", None), ("exp", "exp"), (numpy.sqrt, "log")):
                cnt += 1
                cond = "tr=%s,inv_tr=%s,two output columns" % (tr if tr is None or isinstance(tr, str) else "callable",
                                                             inv if inv is None or isinstance(inv, str) else "callable")
                f = (lambda v: v) if tr is None else (fn[tr] if isinstance(tr, str) else tr)
                g = (lambda v: v) if inv is None else (fn[inv] if isinstance(inv, str) else inv)
                try:
                    got = r2_score_comparable(Y, P, tr=tr, inv_tr=inv)
                    exp = r2_score(f(Y), g(P))
                except Exception as e:
                    bad("r2_score_comparable raises %s" % type(e).__name__, cond, "%s Y=%r" % (e, Y.tolist()))
                    continue
                if not (got == exp or (numpy.isnan(got) and numpy.isnan(exp))):
                    bad("r2_score_comparable != r2_score(f(y), g(p))", cond, "%r vs %r Y=%r P=%r" % (got, exp, Y.tolist(), P.tolist()))
    return cnt, True


def run_case(case):
    viol = []
    sigs = set()

    def bad(kind, cond, msg):
        sig = "metrics|%s|%s" % (kind, cond)
        if sig not in sigs:
            sigs.add(sig)
            viol.append({"sig": sig, "msg": msg})

    if case["kind"] == "cor":
        cnt, nt = _cor(case, bad)
    elif case["kind"] == "conformance":
        cnt, nt = _conformance(bad)
    else:
        cnt, nt = _r2(case, bad)
    return {"viol": viol, "nontrivial": nt, "states": cnt, "transitions": cnt, "outcome": (case["kind"], case.get("model"), case.get("draws"))}
