"""C07 — ConstraintKMeans produces clusters of equal size (input x environment explorer).

All multisets of n points on small grids x k x strategy x kmeans0 x random_state x global NumPy seed;
with kmeans0=False a seed table drives *every* initial label vector in {0..k-1}^n through the real
random_state argument; balanced predictions on every non-empty sub-multiset of a probe set.
The unseeded numpy.random.RandomState() used by the 'gain' strategy is owned by the harness (enumerated
environment seeds), as is the global NumPy RNG.
"""
import itertools

PROPERTY = "C07"
RULE = ("every multiset of n grid points (1-D and 2-D grids), k in 2..4 with n >= k, strategy in {distance, gain}, "
        "kmeans0 in {T,F}, seeds from finite sets; every initial label vector via a seed table; balanced prediction "
        "on every sub-batch of a probe set. non-trivial = n is not a multiple of k or duplicates present")
ASSUMPTIONS = ["the global NumPy RNG and the unseeded RandomState() of the gain strategy are enumerated over finite seed sets",
               "plain predict is compared with the Euclidean-nearest centre only when the margin exceeds 1e-9"]


def bounds(tier):
    return {"n1d": 6 if tier == "quick" else 8, "n2d": 4 if tier == "quick" else 5,
            "medium": "n = 18, 24, 21 continuous 2-D points, RandomState(seed).randn for seed < %d, max_iter in {1|2, 20}" % (12 if tier == "quick" else 60),
            "labelvec": "k^n<=243" if tier == "quick" else "k^n<=2187",
            "gseeds": [0, 1] if tier == "quick" else [0, 1, 2, 3]}


def cases(tier, seed):
    b = bounds(tier)
    grid1 = [(float(v),) for v in range(5 if tier == "quick" else 6)]
    grid2 = [(float(a), float(c)) for a in range(3) for c in range(2)]
    for grid, nmax, name in ((grid1, b["n1d"], "1d"), (grid2, b["n2d"], "2d")):
        for n in range(2, nmax + 1):
            for ms in itertools.combinations_with_replacement(range(len(grid)), n):
                if len(set(ms)) == 1:
                    continue
                yield {"kind": "fit", "pts": [list(grid[i]) for i in ms], "gseeds": b["gseeds"]}
    # medium-size designs (continuous 2-D points from an enumerated seed space): the transfer queues of the gain strategy
    # only hold several entries per pair of clusters when a cluster has >= 6 points
    S = 12 if tier == "quick" else 60
    for (k, mult) in ((3, 6), (4, 6), (3, 7)):
        for s0 in range(0, S, 4):
            yield {"kind": "medium", "k": k, "n": k * mult + (1 if mult == 7 else 0) * 0, "seeds": list(range(s0, s0 + 4))}
    # one large batch for balanced prediction (an implementation that works block-wise is only wrong beyond its block size)
    # (sizes just above 1000 with n mod k in {0, 1, 2}: per-block leftovers would add up to more than one extra point)
    for m_ in (1002, 1004, 1101) + ((2050,) if tier == "thorough" else ()):
        yield {"kind": "bigbatch", "k": 3, "m": m_, "strategy": "distance"}
    # many clusters (k beyond any small constant: 33, 40, 70) on skewed data with n mod k != 0, fit and balanced prediction
    for (k, n_) in ((12, 50), (33, 70), (40, 125), (40, 205), (70, 163)) + (((40, 163), (64, 200), (100, 250)) if tier == "thorough" else ()):
        for strategy in ("distance", "gain"):
            yield {"kind": "manyk", "k": k, "n": n_, "strategy": strategy, "seeds": [0, 1] if tier == "quick" else [0, 1, 2, 3],
                   "maxrows": 1100 if tier == "quick" else 1600}
    # every initial label vector (kmeans0=False) on a few data sets
    datasets = [[[0.0], [1.0], [2.0], [3.0], [4.0]], [[0.0], [0.0], [1.0], [3.0], [3.0]],
                [[0.0, 0.0], [1.0, 0.0], [0.0, 1.0], [2.0, 2.0], [2.0, 1.0]],
                [[0.0], [1.0], [2.0], [3.0], [4.0], [5.0]], [[0.0], [0.0], [0.0], [1.0], [4.0], [5.0], [5.0]]]
    lim = 243 if tier == "quick" else 2187
    for pts in datasets:
        n = len(pts)
        for k in (2, 3, 4):
            if k ** n > lim or k > n:
                continue
            for strategy in ("distance", "gain"):
                yield {"kind": "labelvec", "pts": pts, "k": k, "strategy": strategy}


_TABLES = {}


def seed_table(k, n):
    """label vector -> smallest seed s with RandomState(s).randint(0,k,n,int32) == vector."""
    import numpy
    key = (k, n)
    if key not in _TABLES:
        want = k ** n
        tab = {}
        s = 0
        while len(tab) < want and s < 2000000:
            v = tuple(numpy.random.RandomState(s).randint(0, k, n, dtype=numpy.int32).tolist())
            if v not in tab:
                tab[v] = s
            s += 1
        _TABLES[key] = tab
    return _TABLES[key]


class _OwnRS:
    """Owns RandomState() calls without a seed for the duration of a fit."""

    def __init__(self, env_seed):
        self.env_seed = env_seed

    def __enter__(self):
        import numpy
        self.numpy = numpy
        self.orig = numpy.random.RandomState
        orig = self.orig
        env = self.env_seed
        calls = self.calls = []

        class RS(orig):
            def __new__(cls, seed=None, *a, **kw):
                if seed is None:
                    calls.append(1)
                    return orig(env)
                return orig(seed, *a, **kw)
        numpy.random.RandomState = RS
        return self

    def __exit__(self, *a):
        self.numpy.random.RandomState = self.orig


def _sizes_ok(counts, n, k):
    lo, hi = n // k, -(-n // k)
    return all(lo <= c <= hi for c in counts)


def _one_fit(numpy, ConstraintKMeans, X, k, strategy, kmeans0, rs, g, env, bad, probes=None, max_iter=20):
    n = X.shape[0]
    modk = "n mod k = %s" % (n % k if n % k < 2 else ">=2")
    cond = "strategy=%s,kmeans0=%s,%s" % (strategy, kmeans0, modk)
    desc = "X=%r k=%d strategy=%s kmeans0=%s random_state=%r global_seed=%d env_seed=%d" % (
        X.tolist(), k, strategy, kmeans0, rs, g, env)
    X0 = X.copy()
    numpy.random.seed(g)
    try:
        with _OwnRS(env):
            m = ConstraintKMeans(n_clusters=k, strategy=strategy, kmeans0=kmeans0, random_state=rs,
                                 max_iter=max_iter, n_init=2)
            r = m.fit(X)
    except Exception as e:
        bad("fit raises %s" % type(e).__name__, cond, "%s %s" % (str(e)[:200], desc))
        return None
    if r is not m:
        bad("fit does not return self", cond, desc)
    if not numpy.array_equal(X, X0):
        bad("X modified", cond, desc)
    lab = numpy.asarray(m.labels_)
    if lab.shape != (n,) or lab.min() < 0 or lab.max() >= k:
        bad("labels invalid", cond, "%r %s" % (lab.tolist(), desc))
        return m
    counts = numpy.bincount(lab, minlength=k).tolist()
    if not _sizes_ok(counts, n, k):
        bad("cluster size outside floor/ceil", cond, "sizes %r %s" % (counts, desc))
    C = numpy.asarray(m.cluster_centers_)
    if C.shape != (k, X.shape[1]) or not numpy.isfinite(C).all():
        bad("centres not finite", cond, "%r %s" % (C.tolist(), desc))
        return m
    if m.n_iter_ is None or m.n_iter_ > max_iter:
        bad("n_iter_ > max_iter", cond, "%r %s" % (m.n_iter_, desc))
    if m.max_iter != max_iter:
        bad("max_iter changed by fit", cond, "%r %s" % (m.max_iter, desc))
    if probes is not None:
        P = probes
        D = ((P[:, None, :] - C[None, :, :]) ** 2).sum(axis=2)
        try:
            pl = numpy.asarray(m.predict(P))
            srt = numpy.sort(D, axis=1)
            clear = (srt[:, 1] - srt[:, 0] > 1e-9) if k > 1 else numpy.ones(len(P), dtype=bool)
            if (pl[clear] != D.argmin(axis=1)[clear]).any():
                bad("predict is not the nearest centre", cond, desc)
        except Exception as e:
            bad("predict raises %s" % type(e).__name__, cond, "%s %s" % (str(e)[:200], desc))
        mb = ConstraintKMeans(n_clusters=k, strategy=strategy, kmeans0=kmeans0, random_state=rs,
                              max_iter=max_iter, n_init=2, balanced_predictions=True)
        for att in ("cluster_centers_", "labels_", "inertia_", "n_iter_", "weights_", "n_features_in_", "_n_threads"):
            if hasattr(m, att):
                setattr(mb, att, getattr(m, att))
        for size in range(1, len(P) + 1):
            for sub in itertools.combinations(range(len(P)), size):
                B = P[list(sub)]
                mk = "m mod k = %s" % (size % k if size % k < 2 else ">=2")
                small = "m<k" if size < k else "m>=k"
                bcond = "strategy=%s,%s,%s" % (strategy, small, mk)
                numpy.random.seed(g)
                try:
                    with _OwnRS(env):
                        bl = numpy.asarray(mb.predict(B))
                except Exception as e:
                    bad("balanced predict raises %s" % type(e).__name__, bcond,
                        "%s batch=%r centres=%r %s" % (str(e)[:200], B.tolist(), C.tolist(), desc))
                    continue
                if bl.shape != (size,) or bl.min() < 0 or bl.max() >= k:
                    bad("balanced predict labels invalid", bcond, "%r batch=%r %s" % (bl.tolist(), B.tolist(), desc))
                    continue
                bc = numpy.bincount(bl, minlength=k).tolist()
                if not _sizes_ok(bc, size, k):
                    bad("balanced predict size outside floor/ceil", bcond,
                        "sizes %r batch=%r centres=%r %s" % (bc, B.tolist(), C.tolist(), desc))
    return m


def run_case(case):
    import numpy
    import warnings
    from mlinsights.mlmodel import ConstraintKMeans

    warnings.simplefilter("ignore")
    viol = []
    sigs = set()
    cnt = 0
    outcomes = set()

    def bad(kind, cond, msg):
        sig = "ConstraintKMeans|%s|%s" % (kind, cond)
        if sig not in sigs:
            sigs.add(sig)
            viol.append({"sig": sig, "msg": msg})

    X = numpy.array(case.get("pts", [[0.0]]), dtype=numpy.float64)
    n = X.shape[0]
    if case["kind"] == "bigbatch":
        k, mrows = case["k"], case["m"]
        rs_ = numpy.random.RandomState(5)
        Xtr = rs_.randn(30, 2)
        numpy.random.seed(0)
        mb = ConstraintKMeans(n_clusters=k, strategy=case["strategy"], random_state=0, n_init=2, max_iter=20, balanced_predictions=True).fit(Xtr)
        B = numpy.vstack([rs_.randn(mrows - 200, 2), rs_.randn(200, 2) * 0.2 + 2.0])    # skewed batch
        numpy.random.seed(0)
        bl = numpy.asarray(mb.predict(B))
        bc = numpy.bincount(bl, minlength=k).tolist()
        if not _sizes_ok(bc, mrows, k):
            bad("balanced predict size outside floor/ceil", "strategy=%s,large batch" % case["strategy"], "sizes %r for a batch of %d rows, k=%d" % (bc, mrows, k))
        return {"viol": viol, "nontrivial": True, "states": 1, "transitions": mrows, "outcome": tuple(bc)}
    if case["kind"] == "manyk":
        k, n = case["k"], case["n"]
        for sd in case["seeds"]:
            rs_ = numpy.random.RandomState(100 + sd)
            # a dense blob plus a few isolated points: most points' closest clusters fill up early
            Xk = numpy.vstack([rs_.randn(n - 12, 2) * 0.3, rs_.randn(12, 2) * 5.0 + 20.0])
            m = _one_fit(numpy, ConstraintKMeans, Xk, k, case["strategy"], True, sd, sd, sd, bad, max_iter=5)
            cnt += 1
            if m is None or not hasattr(m, "cluster_centers_"):
                continue
            outcomes.add((k, tuple(sorted(numpy.bincount(m.labels_, minlength=k).tolist()))))
            # the flag as GridSearchCV / ParameterGrid hand it over (a NumPy bool) or as an integer: true is true
            mb = ConstraintKMeans(n_clusters=k, strategy=case["strategy"], random_state=sd, max_iter=5, n_init=2,
                                  balanced_predictions=[numpy.True_, 1, True][(sd + k) % 3])
            for att in ("cluster_centers_", "labels_", "inertia_", "n_iter_", "weights_", "n_features_in_", "_n_threads"):
                if hasattr(m, att):
                    setattr(mb, att, getattr(m, att))
            C_ = numpy.asarray(m.cluster_centers_)
            batches = [("one-sided", rs_.randn(msz, 2) * 0.5 + 3.0) for msz in (n, n + 38, k + 1, 2 * k - 1)]
            # batches that sit on all centres but one (the last / the first), k-1 rows on each: the nearest-centre labels then look
            # balanced although one cluster receives nothing
            for skip_ in ((k - 1, 0) if (k - 1) ** 2 <= case.get("maxrows", 1100) and sd == case["seeds"][0] else ()):
                keep_ = [j for j in range(k) if j != skip_]
                batches.append(("k-1 rows on every centre but centre %d" % skip_,
                                numpy.repeat(C_[keep_], k - 1, axis=0) + 1e-6 * rs_.randn((k - 1) * (k - 1), 2)))
            for bname, B in batches:
                msz = len(B)
                numpy.random.seed(sd)
                bcond = "strategy=%s,%s,m mod k = %s" % (case["strategy"], "m<k" if msz < k else "m>=k", msz % k if msz % k < 2 else ">=2")
                try:
                    with _OwnRS(sd):
                        bl = numpy.asarray(mb.predict(B))
                except Exception as e:
                    bad("balanced predict raises %s" % type(e).__name__, bcond, "%s k=%d batch of %d rows" % (str(e)[:200], k, msz))
                    continue
                cnt += 1
                bc = numpy.bincount(bl, minlength=k).tolist() if bl.shape == (msz,) and bl.min() >= 0 and bl.max() < k else None
                if bc is None or not _sizes_ok(bc, msz, k):
                    bad("balanced predict size outside floor/ceil", bcond, "sizes %r for a batch (%s) of %d rows, k=%d, seed %d" % (bc, bname, msz, k, sd))
        return {"viol": viol, "nontrivial": True, "states": cnt, "transitions": cnt, "outcome": tuple(sorted(outcomes))[:50]}
    if case["kind"] == "medium":
        k, n = case["k"], case["n"]
        for sd in case["seeds"]:
            Xm = numpy.random.RandomState(sd).randn(n, 2)
            for strategy in ("gain", "distance"):
                for kmeans0 in (False, True):
                    for mi in ((1 if not kmeans0 else 2), 20):
                        m = _one_fit(numpy, ConstraintKMeans, Xm, k, strategy, kmeans0, sd, sd, sd, bad, max_iter=mi)
                        cnt += 1
                        if m is not None and hasattr(m, "labels_"):
                            outcomes.add((k, tuple(sorted(numpy.bincount(m.labels_, minlength=k).tolist()))))
        # the same design / batch stored behind other memory layouts and as float32
        from checks.catalog import layouts
        sd = case["seeds"][0]
        Xm = numpy.random.RandomState(sd).randn(n, 2).astype(numpy.float32).astype(numpy.float64)
        forms = layouts(Xm)[1:] + [("float32", Xm.astype(numpy.float32))]
        for strategy in ("gain", "distance"):
            for nm, Xl in forms:
                m = _one_fit(numpy, ConstraintKMeans, Xl, k, strategy, True, sd, sd, sd, bad, max_iter=20)
                cnt += 1
            if m is None or not hasattr(m, "cluster_centers_"):
                continue
            mref = _one_fit(numpy, ConstraintKMeans, Xm, k, strategy, True, sd, sd, sd, bad, max_iter=20)
            if mref is None:
                continue
            P = numpy.vstack([Xm[:7], Xm[:3] + 0.25])
            base = numpy.asarray(mref.predict(P))
            mb = ConstraintKMeans(n_clusters=k, strategy=strategy, random_state=sd, max_iter=20, n_init=2, balanced_predictions=True)
            for att in ("cluster_centers_", "labels_", "inertia_", "n_iter_", "weights_", "n_features_in_", "_n_threads"):
                if hasattr(mref, att):
                    setattr(mb, att, getattr(mref, att))
            for nm, Pl in layouts(P)[1:]:
                cnt += 1
                lcond = "strategy=%s,batch stored as a non-contiguous/read-only array" % strategy
                try:
                    got = numpy.asarray(mref.predict(Pl))
                    if not numpy.array_equal(got, base):
                        bad("predict depends on the memory layout of the batch", lcond, "layout %s: %r vs %r" % (nm, got.tolist(), base.tolist()))
                    numpy.random.seed(sd)
                    with _OwnRS(sd):
                        bl = numpy.asarray(mb.predict(Pl))
                    if bl.shape != (len(P),) or bl.min() < 0 or bl.max() >= k or not _sizes_ok(numpy.bincount(bl, minlength=k).tolist(), len(P), k):
                        # same condition classes as for contiguous batches (the layout is in the message): the recorded defect of the
                        # 'gain' strategy is one finding whatever the storage of the batch
                        bad("balanced predict size outside floor/ceil", "strategy=%s,%s,m mod k = %s" % (
                            strategy, "m<k" if len(P) < k else "m>=k", len(P) % k if len(P) % k < 2 else ">=2"), "layout %s labels %r" % (nm, bl.tolist()))
                except Exception as e:
                    bad("predict raises %s" % type(e).__name__, lcond, "%s layout %s" % (str(e)[:200], nm))
        return {"viol": viol, "nontrivial": True, "states": cnt, "transitions": cnt, "outcome": tuple(sorted(outcomes))[:50]}
    if case["kind"] == "fit":
        probes = numpy.vstack([X[:1], X[-1:], X[:1] + 0.5, X[-1:] - 1.5, X[n // 2:n // 2 + 1]])
        for k in range(2, min(4, n) + 1):
            for strategy in ("distance", "gain"):
                for kmeans0 in (True, False):
                    for rs in (0, 1):
                        for g in case["gseeds"]:
                            env = g
                            first = (rs == 0 and g == case["gseeds"][0])
                            # few iterations: the balancing step is then the last thing that touches the labels
                            iters = (20, 1 if not kmeans0 else 2) if g == case["gseeds"][0] else (20,)
                            for mi in iters:
                                m = _one_fit(numpy, ConstraintKMeans, X, k, strategy, kmeans0, rs, g, env, bad,
                                             probes=probes if (first and kmeans0 and mi == 20) else None, max_iter=mi)
                                cnt += 1
                            if m is not None and hasattr(m, "labels_"):
                                outcomes.add((k, tuple(sorted(numpy.bincount(m.labels_, minlength=k).tolist()))))
        nontrivial = True
    else:
        k = case["k"]
        tab = seed_table(k, n)
        if len(tab) != k ** n:
            raise AssertionError("seed table incomplete for k=%d n=%d: %d" % (k, n, len(tab)))
        for vec, s in sorted(tab.items()):
            # sanity: the library's own draw equals the wanted vector
            for g in (0, 1):
                m = _one_fit(numpy, ConstraintKMeans, X, k, case["strategy"], False, s, g, g, bad)
                cnt += 1
                if m is not None and hasattr(m, "labels_"):
                    outcomes.add((vec[:2], tuple(sorted(numpy.bincount(m.labels_, minlength=k).tolist()))))
        nontrivial = True
    return {"viol": viol, "nontrivial": nontrivial, "states": cnt, "transitions": cnt,
            "outcome": tuple(sorted(outcomes))[:50]}
