"""C13 — target transformations are undone exactly by their reciprocal (I x E).

Functions: every predefined name x every target vector over an in-domain alphabet incl. NaN, 1-D and 2-D.
Permutations: all k! permutations for k <= 4 reached through a seed table on the real random_state
argument x label sets x classifiers. Regressors: a recording regressor passed as regressor=.
"""
import itertools

PROPERTY = "C13"
RULE = ("every predefined function name x every target vector of length <= L over an in-domain alphabet (NaN included); "
        "every permutation of k <= 4 labels (seed table) x label sets x label assignments x classifiers; "
        "non-trivial = permutation is not the identity / target not constant")
ASSUMPTIONS = ["LogisticRegression (tol 1e-10) is label-permutation-equivariant up to 1e-6 on probabilities; a fully grown "
               "DecisionTreeClassifier on distinct rows is exactly equivariant",
               "the reference for the equivariance clause is the plain classifier fitted on the rank of each label "
               "(sklearn orders classes_ by sorted label), mapped back to labels",
               "round trips compared with rtol 1e-12"]

DOMAINS = {
    "log": [0.5, 1.0, 2.0, 10.0], "exp": [-1.0, 0.0, 0.5, 2.0], "log(1+x)": [-0.5, 0.0, 1.0, 3.0],
    "log1p": [-0.5, 0.0, 1.0, 3.0], "exp(x)-1": [-1.0, 0.25, 0.5, 2.0], "expm1": [-1.0, 0.25, 0.5, 2.0],
}
LABELSETS = {
    "int": [0, 1, 2, 3], "negint": [-3, 7, 10, 25], "float": [0.5, 1.5, 2.5, 4.0], "bool": [False, True],
    "str": ["a", "b", "c", "d"], "objstr": ["a", "b", "c", "d"], "strlen": ["no", "yes", "maybe", "x"],
    # identifiers above 2^53 (neighbours collide once converted to float64), as unsigned and signed 64-bit integers; small unsigned
    "uint64big": [1580000000000000007, 1580000000000000001, 1580000000000000005, 1580000000000000003],
    "int64big": [2 ** 60 + 7, 2 ** 60 + 1, -2 ** 60 - 3, 2 ** 60 + 3], "uint8": [200, 3, 255, 7],
}
LABELDTYPES = {"objstr": object, "uint64big": "uint64", "int64big": "int64", "uint8": "uint8"}


def bounds(tier):
    return {"L": 3 if tier == "quick" else 4, "k": 4, "assignments": 6 if tier == "quick" else 20}


def cases(tier, seed):
    b = bounds(tier)
    yield {"kind": "fct", "L": b["L"]}
    for ls in LABELSETS:
        for k in (2, 3, 4):
            if k > len(LABELSETS[ls]):
                continue
            for clf in ("tree", "logreg"):
                yield {"kind": "perm", "labels": ls, "k": k, "clf": clf, "nassign": b["assignments"]}
    for name in list(DOMAINS) + ["permute"]:
        yield {"kind": "reg", "name": name, "L": b["L"] + 2}


_PT = {}


def perm_table(k):
    import numpy
    if k not in _PT:
        tab = {}
        s = 0
        import math
        while len(tab) < math.factorial(k):
            p = tuple(numpy.random.RandomState(s).permutation(numpy.arange(k)).tolist())
            tab.setdefault(p, s)
            s += 1
        _PT[k] = tab
    return _PT[k]


def _same(a, b):
    import numpy
    a, b = numpy.asarray(a, dtype=float), numpy.asarray(b, dtype=float)
    if a.shape != b.shape:
        return False
    na, nb = numpy.isnan(a), numpy.isnan(b)
    if not numpy.array_equal(na, nb):
        return False
    return bool(numpy.allclose(a[~na], b[~nb], rtol=1e-12, atol=1e-300))


def _fct(case, bad):
    import numpy
    from mlinsights.mlmodel import FunctionReciprocalTransformer

    cnt = 0
    names = sorted(FunctionReciprocalTransformer.available_fcts())
    if set(names) != set(DOMAINS):
        bad("available_fcts", "names", "unexpected set of predefined names %r" % names)
    for name in names:
        dom = DOMAINS.get(name, [0.5, 1.0]) + [float("nan")]
        X = numpy.array([[1.0, 2.0]])
        for L in range(1, case["L"] + 1):
            for vec in itertools.product(dom, repeat=L):
                for shape in ("1d", "2d"):
                    y = numpy.array(vec, dtype=numpy.float64)
                    if shape == "2d":
                        y = y.reshape(-1, 1)
                    y0 = y.copy()
                    cnt += 1
                    try:
                        tr = FunctionReciprocalTransformer(name)
                        r = tr.fit()
                        X1, y1 = tr.transform(X, y)
                        inv = tr.get_fct_inv()
                        X2, y2 = inv.transform(X1, y1)
                        back = inv.get_fct_inv()
                        _, y3 = back.transform(X2, y2)
                    except Exception as e:
                        bad("raises %s" % type(e).__name__, "fct=%s" % name, "%s y=%r" % (e, vec))
                        continue
                    if r is not tr:
                        bad("fit does not return self", "fct=%s" % name, "")
                    if X1 is not X or X2 is not X:
                        bad("features not passed through untouched", "fct=%s" % name, "")
                    if not _same(y, y0):
                        bad("targets modified in place", "fct=%s" % name, "y=%r" % (vec,))
                    if not _same(y2, y0):
                        bad("inverse(forward(y)) != y", "fct=%s" % name,
                            "y=%r forward=%r back=%r" % (vec, numpy.asarray(y1).ravel().tolist(), numpy.asarray(y2).ravel().tolist()))
                    if not _same(y3, y1):
                        bad("forward(inverse(z)) != z", "fct=%s" % name, "z=%r" % (numpy.asarray(y1).ravel().tolist(),))
                    if tr.transform(X, None)[1] is not None:
                        bad("transform(X, None) invents targets", "fct=%s" % name, "")
        # integer-dtype targets (counts): the round trip must give the counts back
        for vec in itertools.product((1, 2, 3, 7), repeat=2):
            yi = numpy.array(vec, dtype=numpy.int64)
            cnt += 1
            try:
                tr = FunctionReciprocalTransformer(name).fit()
                _, y1 = tr.transform(X, yi)
                _, y2 = tr.get_fct_inv().transform(X, y1)
                ref = FunctionReciprocalTransformer.available_fcts()[name][0](yi.astype(numpy.float64))
                if not _same(y1, ref):
                    bad("forward(y) differs for integer targets", "fct=%s" % name, "y=%r -> %r expected %r" % (vec, numpy.asarray(y1).tolist(), ref.tolist()))
                elif not numpy.allclose(numpy.asarray(y2, dtype=float), yi, rtol=1e-12):
                    bad("inverse(forward(y)) != y", "fct=%s,integer targets" % name, "y=%r back=%r" % (vec, numpy.asarray(y2).tolist()))
            except Exception as e:
                bad("raises %s" % type(e).__name__, "fct=%s,integer targets" % name, "%s y=%r" % (e, vec))
    return cnt, True


def _perm(case, bad):
    import numpy
    from sklearn.tree import DecisionTreeClassifier
    from sklearn.linear_model import LogisticRegression
    from mlinsights.mlmodel import PermutationReciprocalTransformer, TransformedTargetClassifier2

    k, ls = case["k"], case["labels"]
    labels = LABELSETS[ls][:k]
    dtype = LABELDTYPES.get(ls)
    tab = perm_table(k)
    n = 8
    X = numpy.array([[i, (i * 3) % 5 + 0.5 * (i % 2)] for i in range(n)], dtype=numpy.float64)
    P = numpy.vstack([X, X + 0.3])
    # label assignments: surjective maps rows -> classes, a fixed family in a non-sorted first-occurrence order
    assigns = []
    for a in itertools.product(range(k), repeat=n):
        if len(set(a)) == k and a[0] != 0:
            assigns.append(a)
    step = max(1, len(assigns) // case["nassign"])
    assigns = assigns[::step][:case["nassign"]]
    cnt = 0
    nontriv = 0
    cond = "labels=%s" % ls

    def mk():
        if case["clf"] == "tree":
            return DecisionTreeClassifier(random_state=0)
        return LogisticRegression(tol=1e-10, max_iter=5000)
    ptol = 0.0 if case["clf"] == "tree" else 1e-6
    for perm, s in sorted(tab.items()):
        ident = perm == tuple(range(k))
        for a in assigns:
            y = numpy.array([labels[c] for c in a], dtype=dtype)
            desc = "labels=%r y=%r random_state=%d (permutation %r) clf=%s" % (labels, y.tolist(), s, perm, case["clf"])
            cnt += 1
            if not ident:
                nontriv += 1
            # ---- transformer round trip
            try:
                tr = PermutationReciprocalTransformer(random_state=s)
                tr.fit(None, y)
                _, yt = tr.transform(None, y)
                inv = tr.get_fct_inv()
                _, yb = inv.transform(None, yt)
                codes = sorted(set(numpy.asarray(yt).ravel().tolist()), key=str)
                if len(codes) != k:
                    bad("permutation is not a bijection on the labels", cond, "%r -> %r %s" % (y.tolist(), numpy.asarray(yt).tolist(), desc))
                if numpy.asarray(yb).tolist() != y.tolist():
                    bad("inverse(forward(y)) != y (permutation)", cond, "back=%r %s" % (numpy.asarray(yb).tolist(), desc))
            except Exception as e:
                bad("permutation round trip raises %s" % type(e).__name__, cond, "%s %s" % (str(e)[:160], desc))
            if ls in ("int", "negint") and a is assigns[0]:
                # label matrices (one column per output) and 1-D label vectors behind every memory layout: same values, same result
                from checks.catalog import layouts
                for idt in (numpy.int64, numpy.int32):
                    Y2 = numpy.array([[labels[c], labels[a[(i * 3 + 1) % n]]] for i, c in enumerate(a)], dtype=idt)
                    for target in (Y2, Y2[:, 0].copy()):
                        refs = None
                        for lname, Yl in layouts(target):
                            lcond = "%s,%d-D labels %s" % (cond, target.ndim, "C-contiguous" if lname == "C" else "non-contiguous/" + lname)
                            try:
                                Yl0 = Yl.copy()
                                tr = PermutationReciprocalTransformer(random_state=s)
                                tr.fit(None, Yl)
                                _, yt = tr.transform(None, Yl)
                                _, yb = tr.get_fct_inv().transform(None, yt)
                                cnt += 1
                                if not numpy.array_equal(Yl, Yl0):
                                    bad("targets modified in place", lcond, desc)
                                if numpy.asarray(yb).shape != target.shape or not numpy.array_equal(numpy.asarray(yb), target):
                                    bad("inverse(forward(y)) != y (permutation)", lcond, "y=%r back=%r %s" % (target.tolist(), numpy.asarray(yb).tolist(), desc))
                                pm = tr.permutation_
                                expf = numpy.array([pm[v] for v in target.ravel().tolist()]).reshape(target.shape)
                                if not numpy.array_equal(numpy.asarray(yt), expf):
                                    bad("forward(y) is not permutation_ applied cell by cell", lcond, "y=%r forward=%r permutation_=%r" % (
                                        target.tolist(), numpy.asarray(yt).tolist(), pm))
                                if case["clf"] == "tree" and target.ndim == 2:
                                    m2 = TransformedTargetClassifier2(classifier=mk(), transformer=PermutationReciprocalTransformer(random_state=s))
                                    m2.fit(X, Yl)
                                    p2 = numpy.asarray(m2.predict(P))
                                    if not numpy.array_equal(p2[:n], target):
                                        bad("multi-output predictions on the training rows differ from the labels (fully grown tree)", lcond,
                                            "%r vs %r %s" % (p2[:n].tolist(), target.tolist(), desc))
                                    if refs is None:
                                        refs = p2
                                    elif not numpy.array_equal(refs, p2):
                                        bad("predictions depend on the memory layout of the labels", lcond, desc)
                            except Exception as e:
                                bad("label matrix raises %s" % type(e).__name__, lcond, "%s %s" % (str(e)[:160], desc))
            if ls in ("int", "float", "negint"):
                # NaN stays NaN (float targets)
                yf = numpy.array([labels[c] for c in a], dtype=numpy.float64)
                yf[1] = numpy.nan
                try:
                    tr = PermutationReciprocalTransformer(random_state=s)
                    tr.fit(None, yf)
                    _, yt = tr.transform(None, yf)
                    _, yb = tr.get_fct_inv().transform(None, yt)
                    if not _same(yb, yf) or not numpy.isnan(yt[1]):
                        bad("NaN target not preserved by the permutation round trip", cond, "%r -> %r -> %r %s" % (yf.tolist(), yt.tolist(), yb.tolist(), desc))
                except Exception as e:
                    bad("permutation round trip with NaN raises %s" % type(e).__name__, cond, "%s %s" % (str(e)[:160], desc))
            # ---- classifier
            rank = {lab: i for i, lab in enumerate(sorted(labels))}
            yr = numpy.array([rank[labels[c]] for c in a])
            ref = mk().fit(X, yr)
            ref_pred = [sorted(labels)[j] for j in ref.predict(P)]
            ref_proba = ref.predict_proba(P)
            try:
                m = TransformedTargetClassifier2(classifier=mk(), transformer=PermutationReciprocalTransformer(random_state=s))
                r = m.fit(X, y)
                pred = numpy.asarray(m.predict(P))
                proba = numpy.asarray(m.predict_proba(P))
                classes = list(numpy.asarray(m.classes_).tolist())
            except Exception as e:
                bad("classifier raises %s" % type(e).__name__, cond, "%s %s" % (str(e)[:160], desc))
                continue
            if r is not m:
                bad("fit does not return self", cond, desc)
            if any(p not in labels for p in pred.tolist()):
                bad("predicted value is not an original label", cond, "%r %s" % (pred.tolist()[:6], desc))
                continue
            if proba.shape != ref_proba.shape:
                bad("predict_proba shape", cond, "%r %s" % (proba.shape, desc))
                continue
            if numpy.abs(proba - ref_proba).max() > max(ptol, 1e-12):
                bad("probabilities differ from the plain classifier", cond,
                    "max diff %g %s" % (numpy.abs(proba - ref_proba).max(), desc))
            srt = numpy.sort(ref_proba, axis=1)
            clear = (srt[:, -1] - srt[:, -2]) > 1e-5
            if [p for p, c in zip(pred.tolist(), clear) if c] != [p for p, c in zip(ref_pred, clear) if c]:
                bad("predictions differ from the plain classifier", cond, "%r vs %r %s" % (pred.tolist()[:8], ref_pred[:8], desc))
            if sorted(classes, key=str) != sorted(labels, key=str):
                bad("classes_ is not the label set", cond, "%r %s" % (classes, desc))
                continue
            am = proba.argmax(axis=1)
            cl_pred = [classes[j] for j in am]
            if [p for p, c in zip(cl_pred, clear) if c] != [p for p, c in zip(pred.tolist(), clear) if c]:
                bad("classes_[j] is not the label of probability column j", "%s,%s" % (cond, "identity permutation" if ident else "non-identity permutation"),
                    "classes_=%r classes_[argmax proba]=%r predict=%r %s" % (classes, cl_pred[:6], pred.tolist()[:6], desc))
    # sample weights, one label carried by zero-weight rows only: the wrapper behaves as the plain classifier given the same weights
    for a in assigns[:3]:
        y = numpy.array([labels[c] for c in a], dtype=dtype)
        for wname, wv in (("one label at weight 0", numpy.where(numpy.array(a) == a[0], 0.0, 2.0)),
                          ("positive weights", 1.0 + numpy.arange(n) % 3)):
            for perm, s_ in sorted(tab.items())[:3]:
                desc = "labels=%r y=%r weights=%r (%s) random_state=%d clf=%s" % (labels, y.tolist(), wv.tolist(), wname, s_, case["clf"])
                cnt += 1
                rank = {lab: i for i, lab in enumerate(sorted(labels))}
                try:
                    ref = mk().fit(X, numpy.array([rank[labels[c]] for c in a]), sample_weight=wv)
                except Exception:
                    continue
                try:
                    m = TransformedTargetClassifier2(classifier=mk(), transformer=PermutationReciprocalTransformer(random_state=s_))
                    m.fit(X, y, sample_weight=wv)
                    proba = numpy.asarray(m.predict_proba(P))
                    classes = list(numpy.asarray(m.classes_).tolist())
                    pred = numpy.asarray(m.predict(P)).tolist()
                except Exception as e:
                    bad("classifier raises %s" % type(e).__name__, cond + ",sample weights", "%s %s" % (str(e)[:160], desc))
                    continue
                rp = ref.predict_proba(P)
                if proba.shape != rp.shape or numpy.abs(proba - rp).max() > max(ptol, 1e-12):
                    bad("probabilities differ from the plain classifier", cond + ",sample weights", "shapes %r %r %s" % (proba.shape, rp.shape, desc))
                if sorted(classes, key=str) != sorted(labels, key=str):
                    bad("classes_ is not the label set", cond + ",sample weights", "%r %s" % (classes, desc))
                if any(p_ not in labels for p_ in pred):
                    bad("predicted value is not an original label", cond + ",sample weights", "%r %s" % (pred[:6], desc))
    # two wrappers given the transformer by NAME ('permute'), fitted one after the other on different label sets, also nested:
    # each keeps predicting its own labels, with the probabilities of the plain classifier
    others = {"int": [5, 6, 7, 8], "negint": [0, 1, 2, 3], "float": [10.5, 11.5, 12.5, 14.0], "bool": [0, 1],
              "str": ["p", "q", "r", "s"], "objstr": ["p", "q", "r", "s"], "strlen": ["a", "bb", "ccc", "dddd"],
              "uint64big": [2 ** 63 + 9, 2 ** 63 + 1, 2 ** 63 + 5, 2 ** 63 + 3], "int64big": [5, 2 ** 61, 2 ** 61 + 1, -1],
              "uint8": [0, 1, 254, 128]}[ls][:k]
    for a in assigns[:3]:
        y = numpy.array([labels[c] for c in a], dtype=dtype)
        y2 = numpy.array([others[(c + 1) % k] for c in a], dtype=dtype)
        desc = "labels=%r y=%r then another wrapper on y=%r clf=%s" % (labels, y.tolist(), y2.tolist(), case["clf"])
        cnt += 1
        try:
            numpy.random.seed(3)
            A = TransformedTargetClassifier2(classifier=mk(), transformer="permute").fit(X, y)
            pa, qa = numpy.asarray(A.predict(P)), numpy.asarray(A.predict_proba(P))
            numpy.random.seed(4)
            B = TransformedTargetClassifier2(classifier=mk(), transformer="permute").fit(X, y2)
            pb = numpy.asarray(B.predict(P))
            pa2, qa2 = numpy.asarray(A.predict(P)), numpy.asarray(A.predict_proba(P))
        except Exception as e:
            bad("two wrappers raise %s" % type(e).__name__, cond, "%s %s" % (str(e)[:160], desc))
            continue
        if pa.tolist() != pa2.tolist() or not numpy.array_equal(qa, qa2):
            bad("a fitted wrapper changes when another wrapper is fitted", cond, "%r -> %r %s" % (pa.tolist()[:6], pa2.tolist()[:6], desc))
        if any(p not in labels for p in pa2.tolist()) or any(p not in others for p in pb.tolist()):
            bad("predicted value is not an original label", cond + ",two wrappers", "%r / %r %s" % (pa2.tolist()[:6], pb.tolist()[:6], desc))
        rank = {lab: i for i, lab in enumerate(sorted(labels))}
        ref = mk().fit(X, numpy.array([rank[labels[c]] for c in a]))
        if numpy.abs(qa2 - ref.predict_proba(P)).max() > max(ptol, 1e-12):
            bad("probabilities differ from the plain classifier", cond + ",two wrappers", desc)
    return cnt, nontriv > 0


def _reg(case, bad):
    import numpy
    from sklearn.base import BaseEstimator, RegressorMixin
    from mlinsights.mlmodel import TransformedTargetRegressor2, FunctionReciprocalTransformer

    class Rec(BaseEstimator, RegressorMixin):
        seen = []

        def fit(self, X, y, sample_weight=None):
            Rec.seen.append((numpy.array(X, copy=True), numpy.array(y, copy=True)))
            self.mean_ = float(numpy.mean(y))
            return self

        shift = 0.0

        def predict(self, X):
            # stays inside the domain of every inverse: a value taken by the transformed targets (plus Rec.shift, used with the
            # permutation only: predictions below the smallest / above the largest code)
            return numpy.full((numpy.asarray(X).shape[0],), self.mean_ + Rec.shift) + 0.0 * numpy.asarray(X)[:, 0]

    name = case["name"]
    cnt = 0
    cond = "transformer=%s" % name
    L = case["L"]
    if name == "permute":
        doms = [0.0, 1.0, 2.0]
    else:
        doms = DOMAINS[name][:3]
    for n, shift in itertools.product(range(2, L + 1), (0.0, -10.0, 10.0, -0.75) if name == "permute" else (0.0,)):
        Rec.shift = shift
        X = numpy.arange(n, dtype=numpy.float64).reshape(-1, 1) + 1.0
        for vec in itertools.product(doms, repeat=n):
            y = numpy.array(vec, dtype=numpy.float64)
            if name == "permute" and len(set(vec)) < 2:
                continue
            desc = "transformer=%s y=%r%s" % (name, vec, "" if not shift else " inner predictions shifted by %s" % shift)
            cnt += 1
            Rec.seen = []
            X0, y0 = X.copy(), y.copy()
            try:
                m = TransformedTargetRegressor2(regressor=Rec(), transformer=name)
                r = m.fit(X, y)
                pred = numpy.asarray(m.predict(X))
            except Exception as e:
                bad("regressor raises %s" % type(e).__name__, cond, "%s %s" % (str(e)[:160], desc))
                continue
            if r is not m:
                bad("fit does not return self", cond, desc)
            if not (numpy.array_equal(X, X0) and numpy.array_equal(y, y0)):
                bad("training data modified", cond, desc)
            if len(Rec.seen) != 1:
                bad("inner regressor fitted %d times" % len(Rec.seen), cond, desc)
                continue
            Xs, ys = Rec.seen[0]
            inner = numpy.asarray(m.regressor_.predict(X))
            if name != "permute":
                f, inv_name = FunctionReciprocalTransformer.available_fcts()[name]
                if not _same(ys, f(y)) or not numpy.array_equal(Xs, X):
                    bad("inner regressor not trained on fct(y)", cond, "trained on %r %s" % (ys.tolist(), desc))
                # independent inverses
                ref_inv = {"log": numpy.exp, "exp": numpy.log, "log(1+x)": lambda v: numpy.exp(v) - 1,
                           "log1p": numpy.expm1, "exp(x)-1": lambda v: numpy.log(v + 1), "expm1": numpy.log1p}[name]
                exp = ref_inv(inner)
                if not numpy.allclose(pred, exp, rtol=1e-9, atol=1e-12, equal_nan=True):
                    bad("predict != inverse function of the inner prediction", cond,
                        "inner=%r predict=%r expected=%r %s" % (inner.tolist(), pred.tolist(), numpy.asarray(exp).tolist(), desc))
            else:
                perm = m.transformer_.permutation_
                if sorted(ys.tolist()) != sorted(float(perm[v]) for v in vec):
                    bad("inner regressor not trained on the permuted targets", cond, "trained on %r %s" % (ys.tolist(), desc))
                invp = {v: k for k, v in perm.items()}
                codes = numpy.array(sorted(invp))
                exp = [invp[codes[numpy.argmin(numpy.abs(codes - v))]] for v in inner]
                amb = [numpy.sort(numpy.abs(codes - v))[:2] for v in inner]
                if any(abs(a[0] - a[1]) > 1e-9 and p != e for a, p, e in zip(amb, pred.tolist(), exp)):
                    bad("predict != inverse permutation of the closest code", cond, "inner=%r predict=%r expected=%r %s" % (
                        inner.tolist(), pred.tolist(), exp, desc))
    Rec.shift = 0.0
    if name == "permute":
        # two regressors given the transformer by name, fitted one after the other on different targets
        Xr = numpy.arange(4, dtype=numpy.float64).reshape(-1, 1) + 1.0
        ya, yb = numpy.array([0.0, 1.0, 2.0, 1.0]), numpy.array([100.0, 200.0, 100.0, 300.0])
        try:
            cnt += 1
            A = TransformedTargetRegressor2(regressor=Rec(), transformer="permute").fit(Xr, ya)
            pa = numpy.asarray(A.predict(Xr)).tolist()
            B = TransformedTargetRegressor2(regressor=Rec(), transformer="permute").fit(Xr, yb)
            pb = numpy.asarray(B.predict(Xr)).tolist()
            pa2 = numpy.asarray(A.predict(Xr)).tolist()
            if pa != pa2:
                bad("a fitted wrapper changes when another wrapper is fitted", cond, "%r -> %r" % (pa, pa2))
            if any(v not in ya.tolist() for v in pa2) or any(v not in yb.tolist() for v in pb):
                bad("predict != inverse permutation of the closest code", cond + ",two wrappers", "%r / %r" % (pa2, pb))
        except Exception as e:
            bad("two wrappers raise %s" % type(e).__name__, cond, str(e)[:160])
    return cnt, True


def run_case(case):
    viol = []
    sigs = set()

    def bad(kind, cond, msg):
        sig = "target transforms|%s|%s" % (kind, cond)
        if sig not in sigs:
            sigs.add(sig)
            viol.append({"sig": sig, "msg": msg})

    fn = {"fct": _fct, "perm": _perm, "reg": _reg}[case["kind"]]
    cnt, nontriv = fn(case, bad)
    return {"viol": viol, "nontrivial": nontriv, "states": cnt, "transitions": cnt * 3,
            "outcome": (case["kind"], case.get("labels"), case.get("k"), case.get("name"))}
