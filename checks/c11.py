"""C11 — ExtendedFeatures == PolynomialFeatures (configuration explorer + lifting argument).

(i)   symbolic execution of the real recurrence: the block recurrence is run on an object
      array of exponent vectors with a multiply callback that adds exponents;
(ii)  concrete run on rows of distinct primes (unique factorisation identifies the monomial
      of every output value; all products are exact in float64) -> bitwise comparison;
(iii) n_output_features_ and get_feature_names_out parsed to monomials.
The recurrence's control flow depends only on the configuration, never on X.
"""
PROPERTY = "C11"
RULE = ("every (n_features, degree, interaction_only, include_bias, kind) in the bound accepted by "
        "PolynomialFeatures; non-trivial = more than n_features+1 output columns (the recurrence ran)")
ASSUMPTIONS = ["scikit-learn's PolynomialFeatures (powers_, transform, get_feature_names_out) is the reference",
               "inputs are dense ndarrays (the class refuses sparse input)"]

PRIMES = [2, 3, 5, 7, 11, 13, 17, 19, 23, 29, 31, 37, 41, 43, 47, 53, 59, 61, 67, 71, 73, 79, 83, 89]


def bounds(tier):
    return {"n_features": 5 if tier == "quick" else 8, "degree": 5 if tier == "quick" else 7}


def cases(tier, seed):
    b = bounds(tier)
    for nf in range(1, b["n_features"] + 1):
        for deg in range(0, b["degree"] + 1):
            for io in (False, True):
                for bias in (True, False):
                    if deg == 0 and not bias:
                        continue  # refused by PolynomialFeatures: no output column
                    for kind in ("poly", "poly-slow"):
                        yield {"nf": nf, "deg": deg, "io": io, "bias": bias, "kind": kind}
    # histories on ONE instance: fit(A-config) ; set_params(B-config) ; fit  -> must behave like a fresh B-config object
    cfgs = [(d, io, bias, kind) for d in (1, 2, 3) for io in (False, True) for bias in (True, False) for kind in ("poly", "poly-slow")]
    for nf in (2, 3) if tier == "quick" else (1, 2, 3, 4):
        for a in cfgs:
            yield {"hist": True, "nf": nf, "first": list(a), "then": [list(b_) for b_ in cfgs if b_ != a]}
    # tall batches: a ladder of row counts (not multiples of any power of two) x output widths, output cells <= cap
    cap = 4_000_000 if tier == "quick" else 24_000_000
    for (nf, deg, io, bias) in ((1, 1, False, True), (3, 3, False, True), (6, 3, True, False), (12, 3, False, True)):
        from math import comb
        ncol = sum(comb(nf, d) if io else comb(nf + d - 1, d) for d in range(0 if bias else 1, deg + 1))
        for rows in (1023, 4099, 32771, 131101, 600011, 2000003):
            if rows * ncol > cap:
                continue
            for kind in ("poly", "poly-slow"):
                yield {"nf": nf, "deg": deg, "io": io, "bias": bias, "kind": kind, "rows": rows}
    # numbers of input columns at the limits of the small integer dtypes (index tables): 127/128/129, 255/256/257 at degree 2,
    # 65535/65536/65537 at degree 1
    for kind in ("poly", "poly-slow"):
        for nf in (127, 128, 129, 255, 256, 257):
            yield {"wide": True, "nf": nf, "deg": 2, "io": nf % 2 == 0, "bias": nf % 3 == 0, "kind": kind}
        for nf in (65535, 65536, 65537):
            yield {"wide": True, "nf": nf, "deg": 1, "io": False, "bias": True, "kind": kind}
    # a wide case: lexicographic feature-name order (x10 < x2) must not change the monomial
    for kind in ("poly", "poly-slow"):
        yield {"nf": 12, "deg": 2, "io": False, "bias": True, "kind": kind}
        yield {"nf": 11, "deg": 3, "io": True, "bias": False, "kind": kind}


def _run_tall(case):
    """Batches of many rows: every row of a tall batch must still be the monomials of that row (block-wise processing,
    output-size thresholds). Integer-valued cells keep every product exact, so the comparison is bitwise."""
    import numpy
    from sklearn.preprocessing import PolynomialFeatures
    from mlinsights.mlmodel import ExtendedFeatures
    nf, deg, io, bias, kind, rows = case["nf"], case["deg"], case["io"], case["bias"], case["kind"], case["rows"]
    viol = []
    i = numpy.arange(rows, dtype=numpy.float64)
    X = numpy.column_stack([((i * (3 + 2 * j) + j) % (997 if j == 0 else 5 + j)) + 1.0 for j in range(nf)])
    ref = PolynomialFeatures(degree=deg, interaction_only=io, include_bias=bias).fit(X[:4])
    exp = ref.transform(X)
    cond = "kind=%s,interaction_only=%s,tall batch" % (kind, io)
    for order in ("C", "F"):
        Xo = numpy.asarray(X, order=order)
        try:
            ext = ExtendedFeatures(kind=kind, poly_degree=deg, poly_interaction_only=io, poly_include_bias=bias).fit(X[:4])
            got = numpy.asarray(ext.transform(Xo))
            if got.shape != exp.shape:
                viol.append({"sig": "ExtendedFeatures|shape|" + cond, "msg": "%r vs %r %r" % (got.shape, exp.shape, case)})
            elif not numpy.array_equal(got, exp):
                badrows = numpy.nonzero((got != exp).any(axis=1))[0]
                viol.append({"sig": "ExtendedFeatures|column differs|" + cond,
                             "msg": "%d of %d rows differ from PolynomialFeatures, first %d (%s-ordered input) %r" % (
                                 len(badrows), rows, badrows[0], order, case)})
        except Exception as e:
            viol.append({"sig": "ExtendedFeatures|raises %s|%s" % (type(e).__name__, cond), "msg": "%s %r" % (str(e)[:200], case)})
    return {"viol": viol[:2], "nontrivial": True, "states": 2, "transitions": 2 * rows, "outcome": ("tall", exp.shape)}


def _run_wide(case):
    import numpy
    from sklearn.preprocessing import PolynomialFeatures
    from mlinsights.mlmodel import ExtendedFeatures
    nf, deg, io, bias, kind = case["nf"], case["deg"], case["io"], case["bias"], case["kind"]
    viol = []
    cond = "kind=%s,interaction_only=%s,%d input columns" % (kind, io, nf)
    X = numpy.array([[float((i * 7 + j * 3) % 11 + 1) for j in range(nf)] for i in range(3)])
    X[1, -1] = 13.0
    X[2, 0] = 17.0
    try:
        ref = PolynomialFeatures(degree=deg, interaction_only=io, include_bias=bias).fit(X)
        exp = ref.transform(X)
        ext = ExtendedFeatures(kind=kind, poly_degree=deg, poly_interaction_only=io, poly_include_bias=bias).fit(X)
        got = numpy.asarray(ext.transform(X))
        if ext.n_output_features_ != exp.shape[1] or got.shape != exp.shape:
            viol.append({"sig": "ExtendedFeatures|shape|" + cond, "msg": "%r vs %r" % (got.shape, exp.shape)})
        elif not numpy.array_equal(got, exp):
            j = int(numpy.argwhere(got != exp)[0][1])
            viol.append({"sig": "ExtendedFeatures|column differs|" + cond, "msg": "first differing column %d (monomial %r) %r" % (
                j, [int(q) for q in numpy.nonzero(ref.powers_[j])[0]], case)})
    except Exception as e:
        viol.append({"sig": "ExtendedFeatures|raises %s|%s" % (type(e).__name__, cond), "msg": "%s %r" % (str(e)[:200], case)})
    return {"viol": viol, "nontrivial": True, "states": 1, "transitions": 3, "outcome": ("wide", nf, deg)}


def _parse_name(name, feats):
    exp = [0] * len(feats)
    if name == "1":
        return tuple(exp)
    for tok in name.split():
        if "^" in tok:
            base, p = tok.rsplit("^", 1)
            p = int(p)
        else:
            base, p = tok, 1
        exp[feats.index(base)] += p
    return tuple(exp)


def _run_hist(case):
    import numpy
    from sklearn.preprocessing import PolynomialFeatures
    from mlinsights.mlmodel import ExtendedFeatures
    nf = case["nf"]
    viol = []
    X = numpy.array([PRIMES[:nf], PRIMES[nf:2 * nf], [0.5 * (i + 1) for i in range(nf)]], dtype=numpy.float64)
    X2 = numpy.array([PRIMES[2:2 + nf + 1]], dtype=numpy.float64)      # another number of columns
    d, io, bias, kind = case["first"]
    cnt = 0
    for (d2, io2, bias2, kind2) in case["then"]:
        for mid in ("same columns", "other columns first"):
            cnt += 1
            ref = PolynomialFeatures(degree=d2, interaction_only=io2, include_bias=bias2).fit(X)
            desc = "nf=%d fit with %r, set_params to %r (%s), fit again" % (nf, case["first"], [d2, io2, bias2, kind2], mid)
            try:
                e = ExtendedFeatures(kind=kind, poly_degree=d, poly_interaction_only=io, poly_include_bias=bias)
                e.fit(X)
                e.transform(X)
                if mid != "same columns":
                    e.fit(X2)
                e.set_params(kind=kind2, poly_degree=d2, poly_interaction_only=io2, poly_include_bias=bias2)
                e.fit(X)
                got = e.transform(X)
                names = list(e.get_feature_names_out())
                exp = ref.transform(X)
                if e.n_output_features_ != exp.shape[1] or got.shape != exp.shape or not numpy.array_equal(got, exp) or len(names) != exp.shape[1]:
                    viol.append({"sig": "ExtendedFeatures|refit after set_params differs from a fresh object|%s" % mid,
                                 "msg": "shape %r vs %r, n_output_features_=%r, %d names %s" % (got.shape, exp.shape, e.n_output_features_, len(names), desc)})
                    break
            except Exception as ex:
                viol.append({"sig": "ExtendedFeatures|refit after set_params raises %s|%s" % (type(ex).__name__, mid), "msg": "%s %s" % (str(ex)[:200], desc)})
                break
    return {"viol": viol[:2], "nontrivial": True, "states": cnt, "transitions": cnt * 4, "outcome": ("hist", nf)}


def run_case(case):
    import numpy
    from sklearn.preprocessing import PolynomialFeatures
    from mlinsights.mlmodel import ExtendedFeatures

    if case.get("hist"):
        return _run_hist(case)
    if case.get("rows"):
        return _run_tall(case)
    if case.get("wide"):
        return _run_wide(case)

    nf, deg, io, bias, kind = case["nf"], case["deg"], case["io"], case["bias"], case["kind"]
    viol = []

    def bad(k, msg):
        viol.append({"sig": "ExtendedFeatures|%s|kind=%s,interaction_only=%s" % (k, kind, io),
                     "msg": "%s %r" % (msg, case)})

    rows = [PRIMES[:nf], PRIMES[nf:2 * nf], [(-1) ** i * (i + 0.5) for i in range(nf)], [0.0] * nf]
    Xf = numpy.array(rows, dtype=numpy.float64)
    Xi = numpy.array(rows[:2], dtype=numpy.int64)
    ref = PolynomialFeatures(degree=deg, interaction_only=io, include_bias=bias)
    ref.fit(Xf)
    powers = [tuple(int(v) for v in r) for r in ref.powers_]
    try:
        ext = ExtendedFeatures(kind=kind, poly_degree=deg, poly_interaction_only=io, poly_include_bias=bias)
        r = ext.fit(Xf)
        if r is not ext:
            bad("fit does not return self", "")
        if ext.n_output_features_ != len(powers):
            bad("n_output_features_", "%r != %d" % (ext.n_output_features_, len(powers)))
        # also the same values stored in the non-native byte order (arrays read from big-endian files: FITS, netCDF, numpy.fromfile)
        for X in (Xf, Xi, Xf[:1], Xf[:0], Xf.astype(Xf.dtype.newbyteorder()), Xi.astype(Xi.dtype.newbyteorder()),
                  numpy.asfortranarray(Xf.astype(Xf.dtype.newbyteorder()))):
            got = ext.transform(X)
            exp = ref.transform(X) if X.shape[0] else numpy.empty((0, len(powers)))
            if got.shape != exp.shape:
                bad("shape", "%r vs %r" % (got.shape, exp.shape))
                break
            if not numpy.array_equal(numpy.asarray(got, dtype=numpy.float64),
                                     numpy.asarray(exp, dtype=numpy.float64)):
                j = int(numpy.argwhere(numpy.asarray(got, dtype=float) != numpy.asarray(exp, dtype=float))[0][1])
                bad("column differs", "first differing column %d (monomial %r)" % (j, powers[j]))
                break
        # general real values: tolerance comparison (association order of products may differ)
        Xr = numpy.array([[0.1 * (i + 1) + 0.37 * j for i in range(nf)] for j in range(3)])
        if not numpy.allclose(ext.transform(Xr), ref.transform(Xr), rtol=1e-11, atol=0):
            bad("column differs (real values)", "")
        # names
        # caller-supplied names: plain ones, and names that extend one another by punctuation (lags t / t-1, pandas-mangled
        # duplicates x / x.1, dotted paths)
        tricky = ["t", "t-1", "t-2", "t.1", "x", "x.1", "x-y", "t+1", "a", "a.b", "a.b.c", "ab"]
        for feats in (None, ["f%d" % i for i in range(nf)], tricky[:nf], tricky[::-1][:nf]):
            names = list(ext.get_feature_names_out(feats))
            fl = feats or ["x%d" % i for i in range(nf)]
            if len(names) != len(powers):
                bad("names length", "%d != %d" % (len(names), len(powers)))
                continue
            for j, nm in enumerate(names):
                try:
                    e = _parse_name(nm, fl)
                except Exception:
                    e = None
                if e != powers[j]:
                    bad("feature name", "column %d named %r, contains monomial %r" % (j, nm, powers[j]))
                    break
    except Exception as e:
        import traceback
        bad("raises %s" % type(e).__name__, "%s %s" % (e, traceback.format_exc()[-400:]))
    # symbolic run of the real recurrence
    sym = 0
    if kind == "poly":
        try:
            from mlinsights.mlmodel import _extended_features_polynomial as pol
            fct = pol._transform_ionly if io else pol._transform_iall
        except Exception:
            fct = None
        if fct is not None and deg >= 1:
            unit = numpy.empty((1, nf), dtype=object)
            for i in range(nf):
                unit[0, i] = tuple(1 if k == i else 0 for k in range(nf))
            XP = numpy.empty((1, len(powers)), dtype=object)
            calls = []

            def multiply(A, B, C):
                calls.append((A.shape[1], C.shape[1]))
                if A.shape != C.shape:
                    raise ValueError("block shapes differ %r %r" % (A.shape, C.shape))
                for j in range(A.shape[1]):
                    a = A[0, j]
                    a = (0,) * nf if isinstance(a, int) else a
                    C[0, j] = tuple(x + y for x, y in zip(a, B[0, 0]))
                return C

            try:
                out = fct(deg, bias, XP, unit, multiply, lambda x: x)
                got = [(0,) * nf if isinstance(v, int) else v for v in out[0]]
                sym = len(calls)
                if got != powers:
                    j = [a == b for a, b in zip(got, powers)].index(False)
                    bad("symbolic recurrence", "column %d holds exponents %r, PolynomialFeatures has %r" % (
                        j, got[j], powers[j]))
            except Exception as e:
                bad("symbolic recurrence raises", "%s: %s" % (type(e).__name__, e))
    return {"viol": viol, "nontrivial": len(powers) > nf + 1, "transitions": 6 + sym,
            "outcome": len(powers), "sample": {"n_output": len(powers), "multiply_calls": sym}}
