"""C10 — DecisionTreeLogisticRegression is a consistent tree of binary classifiers (input explorer).

Every non-constant y in {0,1}^n on a fixed 2-D design x label values x hyper-parameters x base estimator.
Oracle: an independent single-row walker over the node objects.
"""
import itertools

PROPERTY = "C10"
RULE = ("every non-constant binary target on the design x label alphabet x max_depth x min_samples_leaf x "
        "min_samples_split x fit_improve_algo x gamma x p1p2 x base estimator; 30+ probe rows walked one by one. "
        "non-trivial = fitted tree has more than one node")
ASSUMPTIONS = ["rows whose node probability is within 1e-9 of the node threshold (or of 0.5 for predict) are "
               "numerical ties and are not compared",
               "a node classifier's predict_proba on one row equals its value in a batch up to 1e-9"]

DESIGN6 = [[0.0, 0.0], [1.0, 0.5], [2.0, 3.0], [3.0, 1.0], [0.5, 2.5], [2.5, 2.0]]
DESIGN8 = DESIGN6 + [[1.5, 1.5], [3.5, 3.5]]
LABELS = {"01": (0, 1), "m11": (-1, 1), "ab": ("a", "b"), "fl": (0.5, 2.5), "alen": ("a", "ab"), "yn": ("no", "yes!"),
          "negf": (-2.5, -0.5), "bool": (False, True), "big": (3, 10 ** 12)}


LAYOUTS = ["Fortran order", "strided window of a larger table", "negative strides", "transposed window", "read-only"]


def bounds(tier):
    return {"n": 6 if tier == "quick" else 8}


def cases(tier, seed):
    n = bounds(tier)["n"]
    ys = [v for v in itertools.product((0, 1), repeat=n) if 0 < sum(v) < n]
    if tier == "thorough":
        # n=8: halve by the symmetry-free subset v[0]==0 plus all n=6 targets
        ys8 = [v for v in ys if v[0] == 0]
        ys6 = [v for v in itertools.product((0, 1), repeat=6) if 0 < sum(v) < 6]
        for v in ys6:
            for lab in LABELS:
                yield {"n": 6, "y": list(v), "labels": lab, "full": True}
        for v in ys6:
            yield {"n": 6, "y": list(v), "labels": "01", "full": True, "inexact": True}
        for i, v in enumerate(ys6):
            yield {"n": 6, "y": list(v), "labels": "01", "full": False, "layout": LAYOUTS[i % len(LAYOUTS)]}
            yield {"n": 6, "y": list(v), "labels": "01", "full": False, "layout": LAYOUTS[(i + 2) % len(LAYOUTS)], "inexact": True}
        for v in ys8:
            yield {"n": 8, "y": list(v), "labels": "01", "full": True}
            yield {"n": 8, "y": list(v), "labels": "ab", "full": False}
    else:
        for i, v in enumerate(ys):
            yield {"n": 6, "y": list(v), "labels": "01", "full": True}
            if (i + seed) % 4 == 0:
                yield {"n": 6, "y": list(v), "labels": "01", "full": False, "inexact": True}
            lab = ("m11", "ab", "fl", "alen", "yn", "negf", "bool", "big")[(i + seed) % 8]
            yield {"n": 6, "y": list(v), "labels": lab, "full": False}
            if (i + seed) % 6 == 0:
                for lay in LAYOUTS:
                    yield {"n": 6, "y": list(v), "labels": "01", "full": False, "layout": lay}


def _configs(full):
    for depth in (1, 2, 3):
        for msl in (1, 2):
            for mss in (2, 4):
                for algo in ("none", "auto", "intercept_sort", "intercept_sort_always"):
                    for gamma, p1p2 in ((1.0, 0.09), (0.0, 0.25)) if full else ((1.0, 0.09),):
                        for est in ("logreg", "tree", "logreg-noint"):
                            if est == "logreg-noint" and (gamma, p1p2) != (1.0, 0.09):
                                continue
                            if est == "tree" and algo == "intercept_sort_always":
                                continue  # refused by design (assert): a non-linear model has no intercept
                            if not full and (mss == 4 or algo == "intercept_sort"):
                                continue
                            yield depth, msl, mss, algo, gamma, p1p2, est


def _nodes(root):
    out = []
    st = [root]
    while st:
        nd = st.pop()
        out.append(nd)
        for c in (nd.above, nd.below):
            if c is not None:
                st.append(c)
    return out


def run_case(case):
    import numpy
    from sklearn.linear_model import LogisticRegression
    from sklearn.tree import DecisionTreeClassifier
    from mlinsights.mlmodel import DecisionTreeLogisticRegression

    n = case["n"]
    X = numpy.array(DESIGN6 if n == 6 else DESIGN8)
    if case.get("inexact"):
        X = X / 3.0 + 0.1        # coordinates that are not float32-representable
    lab = LABELS[case["labels"]]
    y = numpy.array([lab[v] for v in case["y"]])
    g = numpy.linspace(-0.5, 4.0, 5)
    probes = numpy.vstack([X, numpy.array(list(itertools.product(g, g))) / (3.0 if case.get("inexact") else 1.0)])
    viol = []
    sigs = set()
    ntriv = 0
    cnt = 0
    shapes = set()
    # the training set and the query batch as the estimator receives them (same values, another memory layout)
    Xfit, probes_q = X, probes
    if case.get("layout"):
        from checks.catalog import layouts
        Xfit = dict(layouts(X))[case["layout"]]
        probes_q = dict(layouts(probes))[case["layout"]]

    def bad(kind, msg):
        sig = "DecisionTreeLogisticRegression|%s" % kind
        if sig not in sigs:
            sigs.add(sig)
            viol.append({"sig": sig, "msg": msg})

    for depth, msl, mss, algo, gamma, p1p2, est in _configs(case["full"]):
        desc = "y=%r labels=%r max_depth=%d min_samples_leaf=%d min_samples_split=%d algo=%s gamma=%s p1p2=%s est=%s%s" % (
            case["y"], lab, depth, msl, mss, algo, gamma, p1p2, est, " X and the query batch stored as: " + case["layout"] if case.get("layout") else "")
        base = (LogisticRegression() if est == "logreg" else LogisticRegression(fit_intercept=False) if est == "logreg-noint"
                else DecisionTreeClassifier(max_depth=1, random_state=0))
        try:
            m = DecisionTreeLogisticRegression(estimator=base, max_depth=depth, min_samples_leaf=msl,
                                               min_samples_split=mss, fit_improve_algo=algo, gamma=gamma, p1p2=p1p2)
            r = m.fit(Xfit, y)
            proba = m.predict_proba(probes_q)
            pred = m.predict(probes_q)
            path = numpy.asarray(m.decision_path(probes_q).todense())
            leaves = [int(i) for i in m.get_leaves_index()]
            tdepth = m.tree_depth_
            nn = m.n_nodes_
        except Exception as e:
            bad("raises %s" % type(e).__name__, "%s %s" % (e, desc))
            continue
        cnt += 1
        if r is not m:
            bad("fit does not return self", desc)
        nodes = _nodes(m.tree_)
        if len(nodes) > 1:
            ntriv += 1
        shapes.add((len(nodes), tdepth))
        idx = [nd.index for nd in nodes]
        if len(set(idx)) != len(idx) or min(idx) < 0 or max(idx) >= nn:
            bad("node indices not distinct or not below n_nodes_", "%r n_nodes_=%r %s" % (idx, nn, desc))
        if list(m.classes_) != sorted(set(y.tolist())):
            bad("classes_", "%r %s" % (m.classes_, desc))
        exp_leaves = sorted(nd.index for nd in nodes if nd.above is None or nd.below is None)
        if sorted(leaves) != exp_leaves:
            bad("get_leaves_index", "%r expected %r %s" % (leaves, exp_leaves, desc))
        true_depth = max(nd.depth for nd in nodes)
        if tdepth > depth or true_depth > depth or tdepth != true_depth:
            bad("depth", "tree_depth_=%r deepest node=%r max_depth=%d %s" % (tdepth, true_depth, depth, desc))
        if proba.shape != (len(probes), 2) or path.shape != (len(probes), nn):
            bad("shape", "%r %r %s" % (proba.shape, path.shape, desc))
            continue
        if (numpy.abs(proba.sum(axis=1) - 1) > 1e-9).any() or (proba < -1e-12).any():
            bad("probabilities not a distribution", desc)
        # single-row walker
        ties = set()
        for i in range(len(probes)):
            x = probes[i:i + 1]
            nd = m.tree_
            walked = [nd.index]
            tie = False
            while True:
                p = nd.estimator.predict_proba(x)[0]
                if abs(p[1] - nd.threshold) < 1e-9:
                    tie = True
                    break
                child = nd.above if p[1] > nd.threshold else nd.below
                if child is None:
                    break
                nd = child
                walked.append(nd.index)
            if tie:
                ties.add(i)
                continue
            if numpy.abs(proba[i] - p).max() > 1e-9:
                bad("predict_proba != terminal node's probabilities",
                    "row %r got %r walker %r path %r %s" % (probes[i].tolist(), proba[i].tolist(), p.tolist(), walked, desc))
            marked = sorted(numpy.where(path[i] != 0)[0].tolist())
            if marked != sorted(walked) or set(path[i].tolist()) - {0, 1}:
                bad("decision_path != walked path", "row %r marked %r walked %r %s" % (probes[i].tolist(), marked, walked, desc))
            if abs(p[1] - 0.5) > 1e-9:
                exp = m.classes_[1 if p[1] >= 0.5 else 0]
                if pred[i] != exp:
                    bad("predict != classes_[proba >= 0.5]", "row %r predicted %r expected %r p=%r %s" % (
                        probes[i].tolist(), pred[i], exp, p.tolist(), desc))
        # same-batch consistency, ties included: the rows whose marked path ends at node T must carry exactly the
        # probabilities T's classifier gives to that very sub-batch (identical floats when the routing agrees)
        bynode = {nd.index: nd for nd in nodes}
        children = {nd.index: [c.index for c in (nd.above, nd.below) if c is not None] for nd in nodes}

        def consistency(Q, proba_q, path_q, tag):
            ends = {}
            for i in range(len(Q)):
                marked = set(numpy.where(path_q[i] != 0)[0].tolist())
                cur, seen_ = m.tree_.index, {m.tree_.index}
                if cur not in marked:
                    bad("decision_path does not mark a single root-to-node chain" + tag, desc)
                    return
                while True:
                    nxt = [c for c in children[cur] if c in marked]
                    if len(nxt) > 1:
                        bad("decision_path does not mark a single root-to-node chain" + tag, desc)
                        return
                    if not nxt:
                        break
                    cur = nxt[0]
                    seen_.add(cur)
                if seen_ != marked:
                    bad("decision_path does not mark a single root-to-node chain" + tag, desc)
                    return
                ends.setdefault(cur, []).append(i)
            for t, rows_t in ends.items():
                pt = bynode[t].estimator.predict_proba(Q[rows_t])
                if numpy.abs(pt - proba_q[rows_t]).max() > 1e-13:
                    bad("decision_path and predict_proba route a row differently (same batch)" + tag, "node %d rows %r: %r vs %r %s" % (
                        t, [Q[j].tolist() for j in rows_t[:3]], pt[:2].tolist(), proba_q[rows_t][:2].tolist(), desc))
                    return

        consistency(probes, proba, path, "")
        # border rows: for every node with two children, the point of a segment between two probes where the node's decision
        # changes sign, located by bisection to the last bit, and its floating-point neighbours on the segment. There the
        # probability is within one ulp of the threshold; whatever side each of them falls on, predict_proba and
        # decision_path must agree with each other
        border = []
        for nd in nodes:
            if nd.above is None or nd.below is None:
                continue
            est_ = nd.estimator
            if hasattr(est_, "decision_function"):
                f = lambda x_: float(est_.decision_function(x_.reshape(1, -1))[0])
            else:
                f = lambda x_: float(est_.predict_proba(x_.reshape(1, -1))[0, 1] - nd.threshold)
            vals = [f(q) for q in probes[:12]]
            pos = [j for j, v in enumerate(vals) if v > 0]
            neg = [j for j, v in enumerate(vals) if v < 0]
            if not pos or not neg:
                continue
            a_, b_ = probes[neg[0]], probes[pos[0]]
            lo_t, hi_t = 0.0, 1.0
            for _ in range(200):
                mid = (lo_t + hi_t) / 2
                if mid == lo_t or mid == hi_t:
                    break
                if f(a_ + mid * (b_ - a_)) > 0:
                    hi_t = mid
                else:
                    lo_t = mid
            ts = [lo_t, hi_t]
            for _ in range(6):
                ts = [numpy.nextafter(ts[0], -1.0)] + ts + [numpy.nextafter(ts[-1], 2.0)]
            border.extend(a_ + t_ * (b_ - a_) for t_ in ts)
        if border:
            Qb = numpy.array(border)
            try:
                pb = m.predict_proba(Qb)
                pathb = numpy.asarray(m.decision_path(Qb).todense())
                cnt += 1
                consistency(Qb, pb, pathb, " (rows within a few ulps of a node's border)")
                # and row by row (a batch of one)
                for i in range(0, len(Qb), 3):
                    p1_ = m.predict_proba(Qb[i:i + 1])
                    path1_ = numpy.asarray(m.decision_path(Qb[i:i + 1]).todense())
                    consistency(Qb[i:i + 1], p1_, path1_, " (rows within a few ulps of a node's border)")
            except Exception as e:
                bad("raises %s on border rows" % type(e).__name__, "%s %s" % (e, desc))
        # the same batch as a DataFrame and as a list (values that are not float32-representable): the public methods
        # must route exactly as they do for the ndarray
        if case.get("inexact"):
            import pandas
            for kind_, conv in (("DataFrame", lambda a: pandas.DataFrame(a, columns=["f0", "f1"])), ("list", lambda a: a.tolist())):
                try:
                    path2 = numpy.asarray(m.decision_path(conv(probes)).todense())
                    if not numpy.array_equal(path2, path):
                        bad("decision_path of a %s differs from the one of the same values as ndarray" % kind_, desc)
                except (AttributeError, TypeError):
                    pass     # input type not supported by that method: not this property's business
                except Exception as ex:
                    bad("decision_path raises %s on a %s" % (type(ex).__name__, kind_), "%s %s" % (str(ex)[:150], desc))
        # batch vs single rows for the public methods
        sel = [i for i in range(0, len(probes), 5) if i not in ties]
        p1 = numpy.vstack([m.predict_proba(probes[i:i + 1]) for i in sel]) if sel else numpy.zeros((0, 2))
        if sel and numpy.abs(p1 - proba[sel]).max() > 1e-9:
            bad("predict_proba batch != single row", desc)
    return {"viol": viol, "nontrivial": ntriv > 0, "states": cnt, "transitions": cnt * len(probes),
            "outcome": tuple(sorted(shapes)), "counters": {"trees_with_children": ntriv}}
