"""C09 — PiecewiseTreeRegressor and the compiled criteria.

Criteria: state graph over (start, pos, end) driven through the exported _test_criterion_* accessors:
every target vector over {0,1,3}^n, weights menu, sample orders, every 0<=start<end<=n and
start<=pos<=end (single init+update), plus every two-node history init(s1,e1);update(p1);
init(s2,e2);update(p2) on a menu of targets (buffers left by a previous node).
Reference: plain NumPy recomputation from scratch.
Estimator: every target over {0,1,3}^n on small designs x max_depth x min_samples_leaf x criterion.
"""
import itertools

PROPERTY = "C09"
RULE = ("criteria: every y in {0,1,3}^n x weights menu x sample orders x every (start,pos,end); histories of "
        "two node initialisations on one criterion object; estimator: every y in {0,1,3}^n x designs x "
        "max_depth x min_samples_leaf x criterion. non-trivial = non-constant target")
ASSUMPTIONS = ["inputs are float64 C-contiguous (the criterion constructors refuse anything else)",
               "linear criterion checked for unit weights and ranges with more rows than coefficients, as stated",
               "criteria are driven through the _test_criterion_* accessors exported by the compiled module"]

CRITS = ("simple", "fast", "linear1", "linear2", "linear3")


def bounds(tier):
    return {"n_crit": 5 if tier == "quick" else 6, "n_est": 6 if tier == "quick" else 7,
            "history_targets": 6 if tier == "quick" else 24}


def _orders(n):
    if n <= 4:
        return [list(p) for p in itertools.permutations(range(n))]
    fam = [list(range(n)), list(range(n))[::-1], list(range(1, n)) + [0],
           [(3 * i + 1) % n for i in range(n)] if n % 3 else [(5 * i + 2) % n for i in range(n)]]
    out = []
    for f in fam:
        if sorted(f) == list(range(n)) and f not in out:
            out.append(f)
    return out


def cases(tier, seed):
    b = bounds(tier)
    N = b["n_crit"]
    for n in range(1, N + 1):
        ys = list(itertools.product((0, 1, 3), repeat=n))
        ch = 9 if n >= 5 else 27
        for i in range(0, len(ys), ch):
            for crit in CRITS:
                if crit.startswith("linear") and n < 3:
                    continue
                yield {"kind": "crit", "crit": crit, "n": n, "ys": [list(v) for v in ys[i:i + ch]],
                       "wmode": "menu" if tier == "quick" else "all12"}
    # histories
    n = 5
    ys = list(itertools.product((0, 1, 3), repeat=n))
    step = max(1, len(ys) // b["history_targets"])
    for v in ys[1::step]:
        for crit in CRITS:
            yield {"kind": "hist", "crit": crit, "n": n, "y": list(v)}
    # targets with a huge range INSIDE one vector (a 3e16 outlier before unit-scale rows, a geometric series): the value of a node is
    # the mean of its own rows, to the precision of its own rows, whatever the object computed for earlier nodes
    for v in ([3e16, 1.0, 2.0, 5.0, 4.0], [1.0, 2.0, 3e16, 5.0, 4.0], [1e18, 1e16, 1e14, 1e12, 1e10], [-4e15, 3.0, 3.5, 1e-3, 2e-3],
              [4.0, 5.0, 2.0, 1.0, 3e16]):
        for crit in CRITS:
            yield {"kind": "hist", "crit": crit, "n": n, "y": v, "value_only": True}
    # estimator
    ne = b["n_est"]
    for design in ("line", "plane", "dup", "offset"):
        for n in range(3, ne + 1):
            ys = list(itertools.product((0, 1, 3), repeat=n))
            for i in range(0, len(ys), 81):
                yield {"kind": "est", "design": design, "n": n, "ys": [list(v) for v in ys[i:i + 81]]}


def _design(name, n):
    import numpy
    if name == "line":
        return numpy.arange(n, dtype=numpy.float64).reshape(-1, 1)
    if name == "plane":
        return numpy.array([[i, (i * i * 3 + i) % 7] for i in range(n)], dtype=numpy.float64)
    if name == "offset":
        # valid but badly scaled: a large offset relative to the spread (condition number of [X, 1] about 1e9)
        return 20000.0 + 0.5 * numpy.arange(n, dtype=numpy.float64).reshape(-1, 1)
    # duplicates in x: rank-deficient leaves
    return numpy.array([[i // 2] for i in range(n)], dtype=numpy.float64)


def _mk(crit, n):
    import numpy
    if crit == "simple":
        from mlinsights.mlmodel.piecewise_tree_regression_criterion import SimpleRegressorCriterion
        return SimpleRegressorCriterion(1, n), None
    if crit == "fast":
        from mlinsights.mlmodel.piecewise_tree_regression_criterion_fast import SimpleRegressorCriterionFast
        return SimpleRegressorCriterionFast(1, n), None
    from mlinsights.mlmodel.piecewise_tree_regression_criterion_linear import LinearRegressorCriterion
    X = _design({"linear1": "line", "linear2": "plane", "linear3": "offset"}[crit], n)
    return LinearRegressorCriterion(1, X), X


def _ref(y, w, X, idx):
    """(value, impurity or None, weight) for the rows idx; impurity None = not specified by the property."""
    import numpy
    if len(idx) == 0:
        return None, 0.0, 0.0
    yy = y[idx]
    ww = numpy.ones(len(idx)) if w is None else w[idx]
    W = ww.sum()
    mean = (ww * yy).sum() / W
    if X is None:
        return mean, (ww * (yy - mean) ** 2).sum() / W, W
    A = numpy.hstack([X[idx], numpy.ones((len(idx), 1))])
    if len(idx) <= A.shape[1] or w is not None:
        return mean, None, W
    beta = numpy.linalg.lstsq(A, yy, rcond=None)[0]
    return mean, ((A @ beta - yy) ** 2).mean(), W


def _check_state(C, crit_obj, cname, y, w, X, samples, start, pos, end, Wtot, bad, desc, with_proxy=True, value_only=False):
    import numpy
    TOL = 1e-9 if (X is None or abs(X).max() < 1000) else 1e-5
    if value_only:
        # targets far from zero: the one-pass variance loses its digits by construction; only the node value is compared
        val, _imp, _Wn = _ref(y, w, None, samples[start:end])
        v = C._test_criterion_node_value(crit_obj)
        scale = float(numpy.abs(y[samples[start:end]]).max()) if end > start else 1.0     # the node's OWN rows set the precision
        if abs(v - val) > 1e-12 * max(1e-300, abs(val), scale) * len(y):
            bad("node_value", "%r expected %r %s" % (v, val, desc()))
        return 1
    node = samples[start:end]
    left = samples[start:pos]
    right = samples[pos:end]
    val, imp, Wn = _ref(y, w, X, node)
    _, il, Wl = _ref(y, w, X, left)
    _, ir, Wr = _ref(y, w, X, right)
    v = C._test_criterion_node_value(crit_obj)
    if abs(v - val) > TOL:
        bad("node_value", "%r expected %r %s" % (v, val, desc()))
    ni = C._test_criterion_node_impurity(crit_obj)
    if imp is not None and abs(ni - imp) > TOL:
        bad("node_impurity", "%r expected %r %s" % (ni, imp, desc()))
    cl, cr = C._test_criterion_node_impurity_children(crit_obj)
    if il is not None and abs(cl - il) > TOL:
        bad("children_impurity left", "%r expected %r %s" % (cl, il, desc()))
    if ir is not None and abs(cr - ir) > TOL:
        bad("children_impurity right", "%r expected %r %s" % (cr, ir, desc()))
    if start < pos < end:
        exp = (Wn / Wtot) * (ni - Wr / Wn * cr - Wl / Wn * cl)
        got = C._test_criterion_impurity_improvement(crit_obj, ni, cl, cr)
        if abs(got - exp) > TOL:
            bad("impurity_improvement", "%r expected %r (N_t_L=%r N_t_R=%r) %s" % (got, exp, Wl, Wr, desc()))
        if with_proxy:
            C._test_criterion_proxy_impurity_improvement(crit_obj)
            got = C._test_criterion_impurity_improvement(crit_obj, ni, cl, cr)
            if abs(got - exp) > TOL:
                bad("impurity_improvement after proxy", "%r expected %r %s" % (got, exp, desc()))
    return 5


def _crit(case):
    import numpy
    from mlinsights.mlmodel import _piecewise_tree_regression_common as C

    n, cname = case["n"], case["crit"]
    viol = []
    sigs = set()
    cnt = 0
    states = 0

    def mk_bad(extra):
        def bad(kind, msg):
            sig = "criterion %s|%s|%s" % (cname, kind, extra)
            if sig not in sigs:
                sigs.add(sig)
                viol.append({"sig": sig, "msg": msg})
        return bad

    if cname.startswith("linear"):
        wmenu = [None]
    elif case["wmode"] == "menu" or n > 5:
        wmenu = [None, [1.0 + (i % 3) for i in range(n)], [0.5] * n]
    else:
        wmenu = [None] + [list(map(float, t)) for t in itertools.product((1, 2), repeat=n)][1:]
    orders = _orders(n)
    crit_obj, X = _mk(cname, n)
    # value alphabets: the targets as given (float32-exact small integers), an affine image that float32 cannot represent
    # (y/3 + 0.1, weights w/3 + 0.1), and an image far from zero (y + 2^30 + 1: integers float32 cannot hold; node value only)
    images = [("", lambda v: v, lambda v: v, False), (" [targets y/3+0.1, weights w/3+0.1]", lambda v: v / 3.0 + 0.1, lambda v: v / 3.0 + 0.1, False),
              (" [targets y + 2^30 + 1]", lambda v: v + 2.0 ** 30 + 1.0, lambda v: v, True)]
    for ys, (iname, fy, fw, vonly) in itertools.product(case["ys"], images):
        y = fy(numpy.array(ys, dtype=numpy.float64))
        y2 = y.reshape(-1, 1).copy()
        if vonly and cname.startswith("linear"):
            continue
        for wl in wmenu:
            w = None if wl is None else fw(numpy.array(wl, dtype=numpy.float64))
            Wtot = float(n) if w is None else float(w.sum())
            bad = mk_bad(("weights" if w is not None else "unit weights") + (",targets not float32-representable" if iname else ""))
            for order in (orders if not iname else orders[:1]):
                samples = numpy.array(order, dtype=numpy.int64)
                for start in range(0, n):
                    for end in range(start + 1, n + 1):
                        for pos in range(start, end + 1):
                            C._test_criterion_init(crit_obj, y2, w, Wtot, samples, start, end)
                            if pos > start:
                                C._test_criterion_update(crit_obj, pos)
                            states += 1
                            cnt += _check_state(
                                C, crit_obj, cname, y, w, X, samples, start, pos, end, Wtot, bad,
                                lambda: "y=%r w=%r order=%r start=%d pos=%d end=%d%s" % (ys, wl, order, start, pos, end, iname), value_only=vonly)
    return {"viol": viol, "nontrivial": any(len(set(v)) > 1 for v in case["ys"]), "states": states,
            "transitions": cnt, "outcome": (cname, n)}


def _hist(case):
    import numpy
    from mlinsights.mlmodel import _piecewise_tree_regression_common as C

    n, cname, ys = case["n"], case["crit"], case["y"]
    vo = bool(case.get("value_only"))
    viol = []
    sigs = set()
    y = numpy.array(ys, dtype=numpy.float64)
    y2 = y.reshape(-1, 1).copy()
    crit_obj, X = _mk(cname, n)
    cnt = states = 0

    def bad(kind, msg):
        sig = "criterion %s|%s|after an earlier node on the same object" % (cname, kind)
        if sig not in sigs:
            sigs.add(sig)
            viol.append({"sig": sig, "msg": msg})

    ranges = [(s, e) for s in range(n) for e in range(s + 1, n + 1)]
    wl = None if cname.startswith("linear") else [1.0, 2.0, 1.0, 3.0, 2.0, 1.0][:n]
    for order in ([list(range(n)), [2, 0, 4, 1, 3][:n]]):
        samples = numpy.array(order, dtype=numpy.int64)
        for w in ([None] if wl is None else [None, numpy.array(wl)]):
            Wtot = float(n) if w is None else float(w.sum())
            for (s1, e1) in ranges:
                for p1 in range(s1, e1 + 1):
                    for (s2, e2) in ranges:
                        C._test_criterion_init(crit_obj, y2, w, Wtot, samples, s1, e1)
                        if p1 > s1:
                            C._test_criterion_update(crit_obj, p1)
                            C._test_criterion_proxy_impurity_improvement(crit_obj)
                        C._test_criterion_init(crit_obj, y2, w, Wtot, samples, s2, e2)
                        prev = s2
                        # forward sweep of update() over the second node, as the splitter does
                        for p2 in range(s2, e2 + 1):
                            if p2 > prev:
                                C._test_criterion_update(crit_obj, p2)
                                prev = p2
                            states += 1
                            cnt += _check_state(
                                C, crit_obj, cname, y, w, X, samples, s2, p2, e2, Wtot, bad,
                                lambda: "y=%r w=%r order=%r history init(%d,%d) update(%d) init(%d,%d) sweep to %d" % (
                                    ys, None if w is None else wl, order, s1, e1, p1, s2, e2, p2),
                                with_proxy=(p2 % 2 == 0), value_only=vo)
    # jumps of the split position inside one node, forward AND backward (update(pa); update(pb) with no reset in between): the state
    # reached is the state of (start, pb, end) whatever the path
    order = list(range(n))
    samples = numpy.array(order, dtype=numpy.int64)
    for w in ([None] if wl is None else [None, numpy.array(wl)]):
        Wtot = float(n) if w is None else float(w.sum())
        for (s1, e1) in ranges:
            if e1 - s1 < 3:
                continue
            for pa in range(s1 + 1, e1 + 1):
                for pb in range(s1 + 1, e1 + 1):
                    if pb == pa:
                        continue
                    C._test_criterion_init(crit_obj, y2, w, Wtot, samples, s1, e1)
                    C._test_criterion_update(crit_obj, pa)
                    C._test_criterion_update(crit_obj, pb)
                    states += 1
                    cnt += _check_state(
                        C, crit_obj, cname, y, w, X, samples, s1, pb, e1, Wtot, bad,
                        lambda: "y=%r w=%r history init(%d,%d) update(%d) update(%d)" % (ys, None if w is None else wl, s1, e1, pa, pb),
                        with_proxy=(pa % 2 == 0), value_only=vo)
    return {"viol": viol, "nontrivial": len(set(ys)) > 1, "states": states, "transitions": cnt,
            "outcome": ("hist", cname)}


def _est(case):
    import numpy
    from mlinsights.mlmodel import PiecewiseTreeRegressor

    n = case["n"]
    X = _design(case["design"], n)
    d = X.shape[1]
    probes = numpy.vstack([X, X + 0.25, X[:1] - 1.0, X[-1:] + 1.5])
    if case["design"] == "offset":
        probes = numpy.vstack([X, X + 0.125])
    viol = []
    sigs = set()
    cnt = 0
    ntree = 0

    def bad(kind, msg):
        sig = "PiecewiseTreeRegressor|%s" % kind
        if sig not in sigs:
            sigs.add(sig)
            viol.append({"sig": sig, "msg": msg})

    from checks.catalog import layouts
    X_c = X
    # forms of the same training set: memory layouts, and the dtypes that hold the design exactly
    forms_all = [("", X_c)] + [(" X stored as: " + nm, v) for nm, v in layouts(X_c)[1:]]
    if (X_c == numpy.round(X_c)).all():
        forms_all.append((" X stored as: int64", X_c.astype(numpy.int64)))
    if (X_c.astype(numpy.float32).astype(numpy.float64) == X_c).all():
        forms_all.append((" X stored as: float32", X_c.astype(numpy.float32)))
    runs = []
    for iy, ys in enumerate(case["ys"]):
        y_ = numpy.array(ys, dtype=numpy.float64)
        runs.append((ys, y_, "", forms_all if iy % 27 == 13 else forms_all[:1], ("mselin", "simple"), 1.0))
        if iy % 27 == 5:
            # target values float32 cannot represent: an affine image near zero, and integers beyond 2^24
            runs.append((ys, y_ / 3.0 + 0.1, " targets y/3+0.1", forms_all[:1], ("mselin", "simple"), 1.0))
            runs.append((ys, y_ + 2.0 ** 30 + 1.0, " targets y+2^30+1", forms_all[:1], ("simple",), 2.0 ** 30 * 1e-4))
    for ys, y, ydesc, forms, crits, tscale in runs:
        for crit, depth, msl, (fdesc, X) in itertools.product(crits, (1, 2, 3), (1, 2, 3), forms):
            fdesc = fdesc + ydesc
            if True:
                if True:
                    if 2 * msl > n:
                        continue
                    wopts = [None] if crit == "mselin" else [None, numpy.array([1.0 + (i % 2) for i in range(n)])]
                    for w in wopts:
                        desc = "design=%s y=%r criterion=%s max_depth=%d min_samples_leaf=%d weights=%s%s" % (
                            case["design"], ys, crit, depth, msl, w is not None, fdesc)
                        X0, y0 = X.copy(), y.copy()
                        try:
                            m = PiecewiseTreeRegressor(criterion=crit, max_depth=depth, min_samples_leaf=msl)
                            r = m.fit(X, y, sample_weight=w)
                            pred = m.predict(probes)
                            leaves = m.apply(probes)
                        except Exception as e:
                            bad("raises %s|criterion=%s%s" % (type(e).__name__, crit, ",X not a C-contiguous float64 array" if fdesc else ""), "%s %s" % (e, desc))
                            continue
                        cnt += 1
                        if m.tree_.node_count > 1:
                            ntree += 1
                        if r is not m:
                            bad("fit does not return self", desc)
                        if m.criterion != crit:
                            bad("criterion parameter changed by fit", "%r %s" % (m.criterion, desc))
                        if not (numpy.array_equal(X, X0) and numpy.array_equal(y, y0)):
                            bad("training data modified", desc)
                        if m.tree_.max_depth > depth:
                            bad("max_depth exceeded", "%d %s" % (m.tree_.max_depth, desc))
                        ltrain = leaves[:n]
                        for leaf in set(leaves.tolist()):
                            rows = numpy.where(ltrain == leaf)[0]
                            if len(rows) < msl:
                                bad("min_samples_leaf violated", "leaf %d has %d rows %s" % (leaf, len(rows), desc))
                                continue
                            q = numpy.where(leaves == leaf)[0]
                            if crit == "simple":
                                ww = numpy.ones(len(rows)) if w is None else w[rows]
                                exp = numpy.full(len(q), (ww * y[rows]).sum() / ww.sum())
                                chk = numpy.ones(len(q), dtype=bool)
                            else:
                                A = numpy.hstack([X_c[rows], numpy.ones((len(rows), 1))])
                                beta, _res, rank, _sv = numpy.linalg.lstsq(A, y[rows], rcond=None)
                                exp = numpy.hstack([probes[q], numpy.ones((len(q), 1))]) @ beta
                                # unique only on training rows, or everywhere if full column rank
                                chk = (q < n) if rank < A.shape[1] else numpy.ones(len(q), dtype=bool)
                            diff = numpy.abs(pred[q] - exp)
                            if (diff[chk] > (1e-8 if case["design"] != "offset" else 1e-4) * tscale).any():
                                k = q[chk][int(numpy.argmax(diff[chk]))]
                                bad("prediction != per-leaf %s|criterion=%s" % (
                                    "least squares" if crit == "mselin" else "mean", crit),
                                    "row %r leaf %d predicted %r expected %r %s" % (
                                        probes[k].tolist(), leaf, pred[k], exp[list(q).index(k)], desc))
    # one predict call on tens of thousands of rows (vectorised paths for large batches): row t of the result is the prediction of row t
    ysb = case["ys"][len(case["ys"]) // 3]
    yb_ = numpy.array(ysb, dtype=numpy.float64)
    for crit in ("mselin", "simple"):
        try:
            mb_ = PiecewiseTreeRegressor(criterion=crit, max_depth=2, min_samples_leaf=1).fit(X_c, yb_)
            small = numpy.asarray(mb_.predict(probes))
            reps = 40001 // len(probes) + 1
            Q = numpy.tile(probes, (reps, 1))[:40001]
            big = numpy.asarray(mb_.predict(Q))
            cnt += 1
            exp_big = numpy.tile(small, reps)[:40001]
            if big.shape != exp_big.shape or not numpy.allclose(big, exp_big, rtol=1e-9, atol=1e-9):
                w_ = numpy.nonzero(~numpy.isclose(big, exp_big, rtol=1e-9, atol=1e-9))[0] if big.shape == exp_big.shape else [-1]
                bad("prediction != per-leaf %s|criterion=%s,batch of 40001 rows" % ("least squares" if crit == "mselin" else "mean", crit),
                    "%d rows differ from the same rows predicted in a small batch, first %d design=%s y=%r" % (len(w_), w_[0], case["design"], ysb))
        except Exception as e:
            bad("raises %s|criterion=%s,batch of 40001 rows" % (type(e).__name__, crit), "%s design=%s y=%r" % (str(e)[:200], case["design"], ysb))
    # histories with a refused fit first (NaN target, rows/targets of different lengths, an invalid hyper-parameter corrected through
    # set_params), then a valid fit on the same object: the clauses hold for that model as for a fresh one
    ys = case["ys"][len(case["ys"]) // 2]
    y = numpy.array(ys, dtype=numpy.float64)
    for crit, failing, other_n in itertools.product(("mselin", "simple"), ("nan target", "length mismatch", "max_depth=0"), (False, True)):
        desc = "design=%s y=%r criterion=%s history: fit refused (%s), then a valid fit%s" % (
            case["design"], ys, crit, failing, " on data of another size" if other_n else "")
        m = PiecewiseTreeRegressor(criterion=crit, max_depth=2, min_samples_leaf=1)
        try:
            if failing == "nan target":
                yb = y.copy()
                yb[0] = numpy.nan
                m.fit(X_c, yb)
            elif failing == "length mismatch":
                m.fit(X_c, y[:-1])
            else:
                m.set_params(max_depth=0)
                m.fit(X_c, y)
            continue            # not refused: nothing to check here
        except Exception:
            pass
        try:
            m.set_params(max_depth=2)
            Xv, yv = (X_c[:-1], y[:-1]) if other_n else (X_c, y)
            m.fit(Xv, yv)
            pred = m.predict(probes)
            leaves = m.apply(probes)
        except Exception as e:
            bad("raises %s|criterion=%s,after a refused fit" % (type(e).__name__, crit), "%s %s" % (str(e)[:200], desc))
            continue
        cnt += 1
        nv = len(yv)
        ltrain = m.apply(Xv)
        for leaf in set(leaves.tolist()):
            rows = numpy.where(ltrain == leaf)[0]
            q = numpy.where(leaves == leaf)[0]
            if len(rows) == 0:
                continue
            if crit == "simple":
                exp = numpy.full(len(q), yv[rows].mean())
                chk = numpy.ones(len(q), dtype=bool)
            else:
                A = numpy.hstack([Xv[rows], numpy.ones((len(rows), 1))])
                beta, _res, rank, _sv = numpy.linalg.lstsq(A, yv[rows], rcond=None)
                exp = numpy.hstack([probes[q], numpy.ones((len(q), 1))]) @ beta
                chk = numpy.array([any((probes[j] == Xv[r]).all() for r in rows) for j in q]) if rank < A.shape[1] else numpy.ones(len(q), dtype=bool)
            diff = numpy.abs(pred[q] - exp)
            if chk.any() and (diff[chk] > (1e-8 if case["design"] != "offset" else 1e-4)).any():
                bad("prediction != per-leaf %s|criterion=%s,after a refused fit" % ("least squares" if crit == "mselin" else "mean", crit),
                    "leaf %d predicted %r expected %r %s" % (leaf, pred[q][chk][:3].tolist(), exp[chk][:3].tolist(), desc))
                break
    return {"viol": viol, "nontrivial": ntree > 0, "states": cnt, "transitions": cnt * len(probes),
            "outcome": ("est", case["design"], n), "counters": {"trees_with_splits": ntree}}


def run_case(case):
    if case["kind"] == "crit":
        return _crit(case)
    if case["kind"] == "hist":
        return _hist(case)
    return _est(case)
