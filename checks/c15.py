"""C15 — learner-to-transformer wrappers are transparent (history explorer).

SkBaseTransformLearner / SkBaseTransformStacking: every (wrapped model, valid method) x every history of length <= L
over {fit(D0), fit(D1), transform, set_params(model parameter), set_params(method), clone}; oracle: a directly fitted
clone of the wrapped model (same parameters, same data) called through the chosen method.
TransferTransformer: every (estimator, method, copy_estimator, trainable) x every history over {fit(Da), fit(Db),
transform}; oracle: frozen estimator unchanged, original never modified with copy_estimator.
"""
import itertools

PROPERTY = "C15"
CASE_TIMEOUT = 300
RULE = ("every wrapped model x valid method x every operation history up to length L; non-trivial = history contains a fit "
        "followed by a transform")
ASSUMPTIONS = ["the wrapped models are deterministic given their (integer) random_state, so a directly fitted clone is a valid reference",
               "outputs compared bitwise (same data, same batch)"]


def bounds(tier):
    return {"L": 3 if tier == "quick" else 4}


def _mlp():
    from sklearn.neural_network import MLPRegressor
    return MLPRegressor(hidden_layer_sizes=(3,), max_iter=15, warm_start=True, random_state=0, solver="sgd", learning_rate_init=0.05)


def _models():
    from sklearn.linear_model import LinearRegression, LogisticRegression
    from sklearn.tree import DecisionTreeClassifier, DecisionTreeRegressor
    from sklearn.cluster import KMeans
    from sklearn.preprocessing import StandardScaler
    return {
        "logreg": (lambda: LogisticRegression(C=0.5), ["predict", "predict_proba", "decision_function"], ("C", 2.0)),
        "dtc": (lambda: DecisionTreeClassifier(max_depth=2, random_state=0), ["predict", "predict_proba"], ("max_depth", 1)),
        "linreg": (lambda: LinearRegression(), ["predict"], ("fit_intercept", False)),
        "dtr": (lambda: DecisionTreeRegressor(max_depth=2, random_state=0), ["predict"], ("max_depth", 3)),
        "kmeans": (lambda: KMeans(n_clusters=2, n_init=2, random_state=0), ["predict", "transform"], ("n_clusters", 3)),
        "scaler": (lambda: StandardScaler(), ["transform"], ("with_mean", False)),
        # fitted state kept as LISTS of arrays and updated in place by a further fit (warm_start)
        "mlp": (lambda: _mlp(), ["predict"], ("alpha", 0.01)),
    }


def cases(tier, seed):
    L = bounds(tier)["L"]
    for name, (_f, methods, _p) in _models().items():
        if name == "mlp":
            continue      # warm_start carries state across fits by design: a directly fitted clone is not a reference for fit;fit histories
        for meth in methods + ["callable", None]:
            yield {"kind": "learner", "model": name, "method": meth, "L": L}
    # member order matters for the dtype of the concatenation: integer-valued outputs (class labels, cluster ids) first, then floats
    for combo in (["linreg", "dtr"], ["logreg", "dtc"], ["kmeans", "scaler", "linreg"], ["linreg"] * 11,
                  ["dtc", "linreg"], ["dtc", "scaler", "linreg"], ["kmeans", "linreg"], ["linreg", "dtc"]):
        for meth in ("predict", "predict_proba"):
            if meth == "predict_proba" and combo[0] != "logreg":
                continue
            yield {"kind": "stacking", "models": combo, "method": meth, "L": L}
    # fit parameters: every subset of {sample_weight, two other fit keywords} must reach the wrapped model as a direct fit passes them
    for wrapper in ("learner", "stacking", "pipeline"):
        yield {"kind": "fitparams", "wrapper": wrapper, "L": 0}
    for name, (_f, methods, _p) in _models().items():
        for meth in methods + [None]:
            for copy in (True, False):
                for trainable in (False, True):
                    yield {"kind": "transfer", "model": name, "method": meth, "copy": copy, "trainable": trainable, "L": L + 1}


def _cb(X):
    import numpy
    return numpy.asarray(X)[:, 0] * 2.0 + 1.0


def _fitparams(case):
    import numpy
    from sklearn.base import BaseEstimator, RegressorMixin
    from sklearn.pipeline import Pipeline
    import mlinsights.sklapi as S

    class RecFit(BaseEstimator, RegressorMixin):
        def fit(self, X, y=None, sample_weight=None, offset=0.0, tag=None):
            self.rec_ = {"X": numpy.array(X, copy=True), "y": None if y is None else numpy.array(y, copy=True),
                         "sample_weight": None if sample_weight is None else numpy.array(sample_weight, copy=True),
                         "offset": offset, "tag": tag}
            w = numpy.ones(len(X)) if sample_weight is None else numpy.asarray(sample_weight, dtype=float)
            self.mean_ = float((w * numpy.asarray(y, dtype=float)).sum() / w.sum()) + offset + (0.5 if tag else 0.0)
            return self

        def predict(self, X):
            return numpy.full(numpy.asarray(X).shape[0], self.mean_)

    viol = []
    X = numpy.arange(10, dtype=numpy.float64).reshape(5, 2)
    y = numpy.array([1.0, 2.0, 4.0, 8.0, 16.0])
    menu = {"sample_weight": numpy.array([1.0, 2.0, 1.0, 3.0, 1.0]), "offset": 10.0, "tag": "t"}
    cnt = 0
    import itertools as it
    for r in range(0, 4):
        for keys in it.combinations(sorted(menu), r):
            kw = {k: menu[k] for k in keys}
            direct = RecFit().fit(X, y, **kw)
            cnt += 1
            if case["wrapper"] == "learner":
                w = S.SkBaseTransformLearner(RecFit(), "predict")
                inner = lambda: [w.model]
                call = lambda: w.fit(X, y, **kw)
            elif case["wrapper"] == "stacking":
                w = S.SkBaseTransformStacking([RecFit(), RecFit()], "predict")
                inner = lambda: [m.model if hasattr(m, "model") else m for m in w.models]
                call = lambda: w.fit(X, y, **kw)
            else:
                w = Pipeline([("learner", S.SkBaseTransformLearner(RecFit(), "predict")), ("final", RecFit())])
                inner = lambda: [w.steps[0][1].model]
                call = lambda: w.fit(X, y, **{"learner__" + k: v for k, v in kw.items()})
            cond = "fit keywords=%s" % (",".join(keys) or "none")
            try:
                call()
                out = numpy.asarray((w.steps[0][1] if case["wrapper"] == "pipeline" else w).transform(X))
            except Exception as e:
                viol.append({"sig": "SkBaseTransform%s|fit with keywords raises %s|%s" % (case["wrapper"], type(e).__name__, cond), "msg": str(e)[:200]})
                continue
            for m in inner():
                rec = getattr(m, "rec_", None)
                same = rec is not None and all(
                    (rec[k] is None and direct.rec_[k] is None) or (rec[k] is not None and direct.rec_[k] is not None and numpy.array_equal(numpy.asarray(rec[k]), numpy.asarray(direct.rec_[k])))
                    if isinstance(direct.rec_[k], numpy.ndarray) or rec[k] is None or direct.rec_[k] is None else rec[k] == direct.rec_[k]
                    for k in direct.rec_)
                if not same:
                    viol.append({"sig": "SkBaseTransform%s|wrapped model not trained as a direct fit would|%s" % (case["wrapper"], cond),
                                 "msg": "wrapped model received %r, a direct fit receives %r" % (
                                     None if rec is None else {k: v for k, v in rec.items() if k not in ("X", "y")}, {k: v for k, v in direct.rec_.items() if k not in ("X", "y")})})
                    break
            if not numpy.allclose(out, direct.predict(X).reshape(-1, 1).repeat(out.shape[1], axis=1)):
                viol.append({"sig": "SkBaseTransform%s|transform != model.method|%s" % (case["wrapper"], cond), "msg": "%r vs %r" % (out[:2].tolist(), direct.predict(X)[:2].tolist())})
    seen, uniq = set(), []
    for v in viol:
        if v["sig"] not in seen:
            seen.add(v["sig"])
            uniq.append(v)
    return {"viol": uniq, "nontrivial": True, "states": cnt, "transitions": cnt * 2, "outcome": ("fitparams", case["wrapper"])}


def _as2d(r):
    import numpy
    r = numpy.asarray(r)
    return r[:, numpy.newaxis] if r.ndim == 1 else r


def run_case(case):
    import pickle
    import warnings
    import numpy
    from sklearn.base import clone
    from checks import catalog as K
    import mlinsights.sklapi as S
    from mlinsights.mlmodel import TransferTransformer

    warnings.simplefilter("ignore")
    if case["kind"] == "fitparams":
        return _fitparams(case)
    viol = []
    sigs = set()
    M = _models()
    D = [K.data("clf", 0), K.data("clf", 4)]
    P = numpy.vstack([D[0]["X"][:4], D[0]["X"][:2] + 0.37, D[0]["X"].max(axis=0) + 1.0])
    who = {"learner": "SkBaseTransformLearner", "stacking": "SkBaseTransformStacking", "transfer": "TransferTransformer"}[case["kind"]]

    def bad(kind, cond, msg):
        sig = "%s|%s|%s" % (who, kind, cond)
        if sig not in sigs:
            sigs.add(sig)
            viol.append({"sig": sig, "msg": msg[:900]})

    def yfor(name, d):
        return d["y"].astype(float) * 1.5 + d["X"][:, 0] if name in ("linreg", "dtr", "mlp") else d["y"]

    cnt = trans = ntriv = 0
    L = case["L"]
    if case["kind"] in ("learner", "stacking"):
        names = [case["model"]] if case["kind"] == "learner" else case["models"]
        meth = case["method"]

        def make():
            if case["kind"] == "learner":
                f = M[names[0]][0]
                return S.SkBaseTransformLearner(f(), _cb if meth == "callable" else meth)
            return S.SkBaseTransformStacking([M[n][0]() for n in names], meth)

        def default_method(model):
            m = None
            for nm in ["predict_proba", "predict", "transform"]:
                if hasattr(type(model), nm):
                    m = nm
            return m

        def members(w):
            if case["kind"] == "learner":
                return [(w.model, w.method)]
            out = []
            for mm in w.models:
                if isinstance(mm, S.SkBaseTransformLearner):
                    out.append((mm.model, mm.method))
                else:
                    out.append((mm, "transform"))
            return out

        def reference(w, d):
            cols = []
            for (model, mth), nm in zip(members(w), names):
                ref = clone(model).fit(d["X"], yfor(nm, d))
                if callable(mth):
                    cols.append(_as2d(mth(P)))
                else:
                    cols.append(_as2d(getattr(ref, mth)(P)))
            return numpy.hstack(cols)

        param_key = {"learner": "model__", "stacking": "models_%d__model__" % (len(names) - 1)}[case["kind"]]
        pk, pv = M[names[-1]][2]
        ops = [("fit", 0), ("fit", 1), ("transform",), ("set", param_key + pk, pv), ("clone",)]
        if case["kind"] == "learner":
            ops.append(("setmodel",))
        if case["kind"] == "learner" and isinstance(meth, str):
            alt = [a for a in M[names[0]][1] if a != meth]
            if alt:
                ops.append(("set", "method", alt[0]))
        for depth in range(1, L + 1):
            for hist in itertools.product(ops, repeat=depth):
                if hist[-1][0] != "transform":
                    continue
                if not any(h[0] == "fit" for h in hist):
                    continue
                cnt += 1
                ntriv += 1
                hdesc = "models=%r method=%r history=%r" % (names, "callable" if meth == "callable" else meth, list(hist))
                try:
                    w = make()
                except Exception as ex:
                    bad("constructor raises %s" % type(ex).__name__, "make", "%s %s" % (str(ex)[:200], hdesc))
                    break
                last = None
                for op in hist:
                    trans += 1
                    try:
                        if op[0] == "fit":
                            d = D[op[1]]
                            yy = yfor(names[0], d) if case["kind"] == "learner" else None
                            if case["kind"] == "stacking":
                                # members of mixed type share one target: regressors accept class labels as numbers
                                yy = d["y"]
                            r = w.fit(d["X"], yy)
                            if r is not w:
                                bad("fit does not return self", "fit", hdesc)
                            last = op[1]
                        elif op[0] == "setmodel":
                            w.set_params(model=M[names[0]][0]())     # a new, unfitted model of the same kind
                            last = None
                        elif op[0] == "set":
                            w.set_params(**{op[1]: op[2]})
                            last = last  # the new parameter applies to the next fit only
                        elif op[0] == "clone":
                            w = clone(w)
                            last = None
                        else:
                            if last is None:
                                continue
                            got = w.transform(P)
                    except Exception as ex:
                        bad("%s raises %s" % (op[0], type(ex).__name__), "history", "%s %s" % (str(ex)[:200], hdesc))
                        last = "err"
                        break
                if last in (None, "err"):
                    continue
                # reference: members refitted directly with the parameters they had at the LAST fit; parameters set after
                # the last fit must not matter for the fitted state, so only histories whose last set precedes the last fit
                lastfit = max(i for i, h in enumerate(hist) if h[0] == "fit")
                if any(h[0] in ("set",) for h in hist[lastfit + 1:]) and any(h[1] != "method" for h in hist[lastfit + 1:] if h[0] == "set"):
                    continue
                if any(h[0] in ("clone", "setmodel") for h in hist[lastfit + 1:]):
                    continue
                d = D[hist[lastfit][1]]
                try:
                    if case["kind"] == "stacking":
                        cols = []
                        for (model, mth) in members(w):
                            ref = clone(model).fit(d["X"], d["y"])
                            cols.append(_as2d(getattr(ref, mth)(P)))
                        exp = numpy.hstack(cols)
                    else:
                        exp = reference(w, d)
                except Exception as ex:
                    raise AssertionError("harness reference failed: %s %s" % (ex, hdesc))
                if got.ndim != 2:
                    bad("transform output is not 2-D", "shape", "%r %s" % (got.shape, hdesc))
                elif got.shape != exp.shape or not numpy.array_equal(got, exp):
                    bad("transform differs from the chosen method of a directly fitted model",
                        "stacking" if case["kind"] == "stacking" else ("method=%s" % ("callable" if meth == "callable" else meth)),
                        "got %s expected %s %s" % (numpy.array2string(numpy.asarray(got).ravel()[:6], precision=5),
                                                   numpy.array2string(exp.ravel()[:6], precision=5), hdesc))
    else:
        name, meth = case["model"], case["method"]
        # "retrain": the user re-trains the ORIGINAL estimator object in place, outside the wrapper
        # "inplace": the user edits the fitted arrays of the ORIGINAL estimator in place (coef_ *= 0.5, scale_ ...): same objects, new content
        ops = [("fit", 0), ("fit", 1), ("transform",), ("retrain", 1), ("inplace",)]

        def edit_in_place(est, seen=None):
            seen = set() if seen is None else seen
            n = 0
            if id(est) in seen:
                return 0
            seen.add(id(est))
            for an, av in list(vars(est).items()):
                if isinstance(av, numpy.ndarray) and av.dtype.kind == "f" and av.flags.writeable and an.endswith("_") and av.size:
                    av *= 0.5
                    av += 0.125
                    n += 1
                elif isinstance(av, (list, tuple)):
                    for it in av:
                        sub = it[1] if isinstance(it, tuple) and len(it) >= 2 else it
                        if hasattr(sub, "get_params") and not isinstance(sub, type):
                            n += edit_in_place(sub, seen)
                elif hasattr(av, "get_params") and not isinstance(av, type):
                    n += edit_in_place(av, seen)
            return n
        resolved = meth
        for depth in range(1, L + 1):
            for hist in itertools.product(ops, repeat=depth):
                if not any(h[0] == "fit" for h in hist) or hist[-1][0] != "transform":
                    continue
                if sum(1 for h in hist if h[0] in ("retrain", "inplace")) > 1:
                    continue
                cnt += 1
                hdesc = "estimator=%s method=%r copy_estimator=%s trainable=%s history=%r" % (name, meth, case["copy"], case["trainable"], list(hist))
                base = M[name][0]().fit(D[0]["X"], yfor(name, D[0]))
                if meth is None:
                    resolved = ("transform" if hasattr(base, "transform") else "predict_proba" if hasattr(base, "predict_proba")
                                else "decision_function" if hasattr(base, "decision_function") else "predict")
                snap = pickle.dumps(base)
                try:
                    tt = TransferTransformer(base, method=meth, copy_estimator=case["copy"], trainable=case["trainable"])
                except Exception as ex:
                    bad("constructor raises %s" % type(ex).__name__, "make", "%s %s" % (str(ex)[:200], hdesc))
                    break
                fitted = False
                snap_at_fit = None
                lastfit = None
                user_touched = False
                touched_since_fit = False
                for op in hist:
                    trans += 1
                    try:
                        if op[0] == "inplace":
                            if not edit_in_place(base):
                                break       # nothing editable in this model: the history adds nothing
                            snap = pickle.dumps(base)
                            user_touched = True
                            touched_since_fit = True
                            continue
                        if op[0] == "retrain":
                            base.fit(D[op[1]]["X"], yfor(name, D[op[1]]))
                            snap = pickle.dumps(base)
                            user_touched = True
                            touched_since_fit = True
                            continue
                        if op[0] == "fit":
                            d = D[op[1]]
                            snap_at_fit = pickle.dumps(base)      # what the wrapper is given at this fit
                            r = tt.fit(d["X"], yfor(name, d))
                            if r is not tt:
                                bad("fit does not return self", "fit", hdesc)
                            fitted = True
                            lastfit = op[1]
                            touched_since_fit = False
                            if case["copy"] or not case["trainable"]:
                                if pickle.dumps(base) != snap_at_fit:
                                    bad("the original estimator was modified", "copy_estimator=%s,trainable=%s" % (case["copy"], case["trainable"]), hdesc)
                                    break
                            snap = pickle.dumps(base)
                        elif fitted:
                            got = numpy.asarray(tt.transform(P))
                            ntriv += 1
                            inner = numpy.asarray(getattr(tt.estimator_, resolved)(P))
                            if not numpy.array_equal(got, inner):
                                bad("transform is not the wrapped estimator's output", "method=%s" % resolved, hdesc)
                            # reference: the estimator as it was when the wrapper was last fitted (copy) / as it is now (no copy),
                            # re-trained on the wrapper's last training set when trainable
                            if case["copy"]:
                                ref = pickle.loads(snap_at_fit)
                            else:
                                ref = pickle.loads(pickle.dumps(base)) if not case["trainable"] else pickle.loads(snap_at_fit)
                            if case["trainable"]:
                                if not case["copy"] and touched_since_fit:
                                    continue   # the user re-trained the shared object after the wrapper's last fit: no single reference
                                ref = ref.fit(D[lastfit]["X"], yfor(name, D[lastfit]))
                            exp = numpy.asarray(getattr(ref, resolved)(P))
                            if not numpy.array_equal(got, exp):
                                bad("transform is not the output of the estimator the wrapper was last given"
                                    if not case["trainable"] else "trainable estimator is not trained as a direct fit would",
                                    "copy_estimator=%s%s" % (case["copy"], ",after the original was re-trained" if user_touched else ""), hdesc)
                    except Exception as ex:
                        bad("%s raises %s" % (op[0], type(ex).__name__), "history", "%s %s" % (str(ex)[:200], hdesc))
                        break
                    if (case["copy"] or not case["trainable"]) and pickle.dumps(base) != snap:
                        bad("the original estimator was modified", "copy_estimator=%s,trainable=%s" % (case["copy"], case["trainable"]), hdesc)
                        break
    return {"viol": viol, "nontrivial": ntriv > 0, "states": cnt, "transitions": trans,
            "outcome": (case["kind"], case.get("model") or tuple(case.get("models", [])), case.get("method"))}
