"""C03 — a fitted model depends only on parameters, the last training set and seeds (history explorer).

Every sequence of fits over a menu of 5 training sets (different n, d, label sets, ranges) up to the length bound,
for every catalogue configuration, global seed g and (where the class has one) random_state: the observable model
after h . fit(D) must equal the one of a fresh clone fitted on D under the same seeds; two identical runs agree
exactly; where an integer random_state is documented as making the estimator deterministic the result does not
depend on the global seed.
"""
import itertools

PROPERTY = "C03"
CASE_TIMEOUT = 300
RULE = ("every fit sequence of length <= L over 5 training sets x global seed in {0,1} for every fit-able catalogue "
        "configuration; non-trivial = sequence of length >= 2 whose last two training sets differ")
ASSUMPTIONS = ["ConstraintKMeans documents random_state only as 'used by k-means' and breaks ties with the global RNG: it is held "
               "to the global-seed clause only",
               "left-over attribute names from an earlier fit are not violations unless an output changes",
               "model equality: outputs on probes + documented fitted attributes; exact for repeated runs, rtol 1e-9 against the fresh clone"]

# estimators documented/deterministic given an integer random_state (or having no randomness at all)
# (the clause is only applied to configurations in which EVERY random_state parameter, nested ones included, is an integer)
SEED_FREE = {"KMeansL1L2", "PiecewiseClassifier", "PermutationReciprocalTransformer", "PiecewiseTreeRegressor",
             "DecisionTreeLogisticRegression", "QuantileLinearRegression", "ExtendedFeatures",
             "CategoriesToIntegers", "TraceableCountVectorizer", "TraceableTfidfVectorizer", "FunctionReciprocalTransformer",
             "DummyTimeSeriesRegressor"}


# too slow on thousands of rows to be run on every change (pure-Python assignment loops); covered on the small menu only
LARGE_SKIP = {"ConstraintKMeans"}


def hang_sig(case):
    return "%s|refit hangs|variant %s" % (case["cls"], case["variant"])


def bounds(tier):
    return {"L": 2 if tier == "quick" else 3, "datasets": 5, "global_seeds": [0, 1],
            "large_n": [3500] if tier == "quick" else [1025, 3500, 8200],
            "perm_depth": 6 if tier == "quick" else 7}


def cases(tier, seed):
    from mcheck import loader
    loader.load()
    from checks import catalog as K
    b = bounds(tier)
    for first in PERM_OPS:
        yield {"cls": "PermutationReciprocalTransformer", "variant": "histories", "first": first, "depth": b["perm_depth"]}
    for name, e in K.catalogue().items():
        if not e["fit"]:
            continue
        for v in e["variants"]:
            yield {"cls": name, "variant": v, "L": b["L"]}
        if e["kind"] in ("reg", "clf", "cluster", "poly", "nmf", "recip") and name not in LARGE_SKIP:
            for v in e["variants"]:
                yield {"cls": name, "variant": v, "large": b["large_n"]}


PERM_OPS = ("fitA", "fitB", "tr", "closest=True", "closest=False", "seed=5")


def _perm_histories(case):
    """Every history of length <= depth over {fit(A), fit(B), transform of seen + unseen targets, set_params(closest=True / False /
    random_state=5)} on ONE PermutationReciprocalTransformer, starting with case['first']; after every history that contains a fit, the
    object answers a probe exactly like a fresh object with the same parameters fitted on the last training set."""
    import itertools
    import numpy
    from mlinsights.mlmodel.sklearn_transform_inv_fct import PermutationReciprocalTransformer as P
    A = numpy.array([1.0, 4.0, 7.0, 9.0, 4.0])
    B = numpy.array([0.0, 2.5, 5.0, 8.0, 3.0, 6.0])
    probe = numpy.array([5.1, 0.2, 8.7, 4.0, 2.5, 7.0, -3.0, 20.0])
    viol, sigs = [], set()

    def bad(kind, cond, msg):
        sig = "PermutationReciprocalTransformer|%s|%s" % (kind, cond)
        if sig not in sigs:
            sigs.add(sig)
            viol.append({"sig": sig, "msg": msg[:900]})

    def answer(t):
        out = []
        for v in probe:
            try:
                out.append(float(numpy.asarray(t.transform(None, numpy.array([v]))[1]).ravel()[0]))
            except Exception as e:
                out.append(type(e).__name__)
        try:
            inv = t.get_fct_inv()
            out.append(sorted((float(k), float(v)) for k, v in inv.permutation_.items()))
        except Exception as e:
            out.append(type(e).__name__)
        return out

    def apply(t, op, state):
        if op == "fitA":
            numpy.random.seed(0); t.fit(None, A); state["last"] = A
        elif op == "fitB":
            numpy.random.seed(0); t.fit(None, B); state["last"] = B
        elif op == "tr":
            for v in (probe[0], probe[3], probe[6]):
                try:
                    t.transform(None, numpy.array([v]))
                except Exception:
                    pass
        elif op == "closest=True":
            t.set_params(closest=True)
        elif op == "closest=False":
            t.set_params(closest=False)
        elif op == "seed=5":
            t.set_params(random_state=5)

    fresh = {}
    cnt = trans = 0
    first = case["first"]
    for depth in range(1, case["depth"] + 1):
        for rest in itertools.product(PERM_OPS, repeat=depth - 1):
            hist = (first,) + rest
            if not hist[-1].startswith(("closest", "seed", "fit")) or not any(o.startswith("fit") for o in hist):
                continue       # observed after a fit or a parameter change (a probe is itself a 'tr')
            cnt += 1
            t = P(random_state=1, closest=True)
            state = {}
            try:
                for op in hist:
                    trans += 1
                    apply(t, op, state)
                got = answer(t)
            except Exception as e:
                bad("history raises %s" % type(e).__name__, "history of fits, transforms and set_params", "%s history %r" % (str(e)[:200], list(hist)))
                continue
            key = (t.closest, t.random_state, id(state["last"]))
            # the permutation is drawn at fit time with the random_state in force at that moment: the reference replays the parameter
            # changes made before the last fit, fits once, then applies the later ones
            li = max(i for i, o in enumerate(hist) if o.startswith("fit"))
            pre = tuple(o for o in hist[:li] if o.startswith(("closest", "seed")))
            post = tuple(o for o in hist[li + 1:] if o.startswith(("closest", "seed")))
            fk = (pre[-3:], hist[li], post)
            rs_at_fit = 5 if "seed=5" in pre else 1
            fk = (rs_at_fit, hist[li], t.closest, t.random_state)
            if fk not in fresh:
                f = P(random_state=rs_at_fit, closest=True)
                apply(f, hist[li], {})
                f.set_params(closest=t.closest, random_state=t.random_state)
                fresh[fk] = answer(f)
            if got != fresh[fk]:
                bad("object after a history differs from a fresh object with the same parameters fitted on the last training set",
                    "history of fits, transforms and set_params (depth %d)" % len(hist), "history %r: probe %r -> %r, fresh object -> %r" % (list(hist), probe.tolist(), got, fresh[fk]))
    return {"viol": viol, "nontrivial": True, "states": cnt, "transitions": trans, "outcome": ("perm-histories", first)}


def _ill_conditioned(K, make, kind, dat, ref_obs, numpy):
    """True if the model fitted on the contiguous data changes under a last-bit perturbation of the training values (an exact
    tie between two splits / two centres): NumPy's element-wise kernels may differ by one ulp between contiguous and strided
    input, so layout-independence is only demanded where the fit is stable under such perturbations."""
    for target in ("y", "X"):
        if target not in dat or getattr(dat[target], "dtype", None) is None or dat[target].dtype.kind != "f":
            continue
        for sgn in (1.0, -1.0):
            d2 = dict(dat)
            v = dat[target]
            alt = numpy.where((numpy.arange(v.size).reshape(v.shape) % 2) == 0, sgn, -sgn)
            d2[target] = v * (1.0 + alt * 2.0 ** -51)
            try:
                est = make()
                numpy.random.seed(0)
                K.fit(est, kind, d2)
                o = K.observe(est, kind, dat)
            except Exception:
                return True
            if K.same_obs(ref_obs, {k_: v_ for k_, v_ in o.items() if k_ != "n_iter_"}):
                return True
    return False


def _large(case, K, e, kind, make, bad, viol, numpy):
    """Seed clauses and one refit on training sets of thousands of rows (sub-sampling / block thresholds)."""
    cls = case["cls"]
    small = K.data(kind, 0)
    cnt = 0
    for n in case["large"]:
        dat = K.data_large(kind, n)
        P = K.probes(kind, dat)

        def run(g, est=None):
            est = make() if est is None else est
            numpy.random.seed(g)
            K.fit(est, kind, dat)
            return K.observe(est, kind, dat, P)
        cond = "n=%d rows" % n
        try:
            a = run(0)
        except Exception:
            continue          # fit-ability on large data is not this property's business
        cnt += 1
        try:
            b = run(0)
            d = K.same_obs(a, b, exact=True)
            if d:
                bad("two fits with the same data, parameters and global seed differ", cond, "%s variant=%s" % (d, case["variant"]))
            rs = [v for k, v in make().get_params(deep=True).items() if k.rsplit("__", 1)[-1].endswith("random_state")]
            if cls in SEED_FREE and all(isinstance(v, (int, numpy.integer)) for v in rs):
                for g in (1, 2):
                    c = run(g)
                    cnt += 1
                    d = K.same_obs(a, c, exact=True)
                    if d:
                        bad("result depends on the global NumPy seed although random_state is an integer", cond,
                            "%s variant=%s global seeds 0 and %d" % (d, case["variant"], g))
                        break
            est = make()
            numpy.random.seed(0)
            K.fit(est, kind, small)
            try:
                K.observe(est, kind, small)
            except Exception:
                pass
            o = run(0, est)
            cnt += 1
            d = K.same_obs(a, o)
            if d:
                bad("refitted model differs from a fresh clone fitted on the same data", cond, "%s variant=%s fit(small); fit(large)" % (d, case["variant"]))
        except Exception as ex:
            bad("second run raises %s" % type(ex).__name__, cond, str(ex)[:200])
    return {"viol": viol, "nontrivial": cnt > 0, "states": cnt, "transitions": cnt, "outcome": (cls, case["variant"], "large")}


def run_case(case):
    import warnings
    import numpy
    from checks import catalog as K

    warnings.simplefilter("ignore")
    if "first" in case:
        return _perm_histories(case)
    viol = []
    sigs = set()
    cls = case["cls"]

    def bad(kind, cond, msg):
        sig = "%s|%s|%s" % (cls, kind, cond)
        if sig not in sigs:
            sigs.add(sig)
            viol.append({"sig": sig, "msg": msg[:900]})

    e = K.catalogue()[cls]
    kind = e["kind"]
    make = e["variants"][case["variant"]]
    if "large" in case:
        return _large(case, K, e, kind, make, bad, viol, numpy)
    nd = 5 if kind in ("reg", "clf", "cluster", "poly", "nmf", "recip") else (3 if kind in ("ts", "cat") else 2)
    D = [K.data(kind, i) for i in range(nd)]

    fresh = {}

    def fit_obs(est, i, g):
        numpy.random.seed(g)
        K.fit(est, kind, D[i])
        return K.observe(est, kind, D[i])

    def fresh_obs(i, g):
        if (i, g) not in fresh:
            try:
                fresh[i, g] = ("ok", fit_obs(make(), i, g))
            except Exception as ex:
                fresh[i, g] = ("raises", "%s: %s" % (type(ex).__name__, str(ex)[:120]))
        return fresh[i, g]

    cnt = trans = ntriv = skipped_ill = 0
    # same seeds => exactly the same model; integer random_state => independent of the global seed
    for i in range(nd):
        a, b = fresh_obs(i, 0), None
        if a[0] != "ok":
            continue
        for rep in range(4):
            try:
                b = fit_obs(make(), i, 0)
            except Exception as ex:
                bad("second identical run raises %s" % type(ex).__name__, "repeat", str(ex)[:200])
                break
            d = K.same_obs(a[1], b, exact=True)
            trans += 1
            if d:
                bad("two fits with the same data, parameters and global seed differ", "repeat", "%s variant=%s data=%d" % (d, case["variant"], i))
                break
        rs = [v for k, v in make().get_params(deep=True).items() if k.rsplit("__", 1)[-1].endswith("random_state")]
        if cls in SEED_FREE and all(isinstance(v, (int, numpy.integer)) for v in rs):
            c = fresh_obs(i, 1)
            if c[0] == "ok":
                d = K.same_obs(a[1], c[1], exact=True)
                if d:
                    bad("result depends on the global NumPy seed although random_state is an integer", "global seed",
                        "%s variant=%s data=%d" % (d, case["variant"], i))
    # other instances: a model fitted on D_i is not changed by constructing and fitting a second object of the same
    # configuration on D_j (shared default estimators, module-level caches, class attributes), and the second is the model a
    # fresh process would have produced
    for (i, j) in ((0, 1), (1, 0), (0, 3), (2, 0)):
        if i >= nd or j >= nd:
            continue
        fa, fb = fresh_obs(i, 0), fresh_obs(j, 0)
        if fa[0] != "ok" or fb[0] != "ok":
            continue
        cnt += 1
        trans += 2
        try:
            a_ = make()
            oa1 = fit_obs(a_, i, 0)
            b_ = make()
            ob = fit_obs(b_, j, 0)
            oa2 = K.observe(a_, kind, D[i])
        except Exception as ex:
            bad("interleaved instances raise %s" % type(ex).__name__, "two instances", "%s variant=%s data %d then %d" % (str(ex)[:200], case["variant"], i, j))
            continue
        d = K.same_obs(oa1, oa2, exact=True)
        if d:
            bad("a fitted model changes when another instance of the same configuration is fitted", "two instances",
                "%s variant=%s first on data %d, second on data %d" % (d, case["variant"], i, j))
        d = K.same_obs(fb[1], ob)
        if d:
            bad("a model fitted after another instance of the same configuration differs from a model fitted alone", "two instances",
                "%s variant=%s first on data %d, second on data %d" % (d, case["variant"], i, j))
    # the training set is its values: the same X, y stored behind another memory layout (Fortran order, strided window,
    # negative strides, transposed window, read-only) gives the same model
    if kind in ("reg", "clf", "cluster", "poly", "nmf", "recip"):
        for i in (0, 3):
            a = fresh_obs(i, 0)
            if a[0] != "ok":
                continue
            lx = K.layouts(D[i]["X"])[1:]
            ly = dict(K.layouts(D[i]["y"])) if "y" in D[i] and getattr(D[i]["y"], "dtype", None) is not None and D[i]["y"].dtype.kind in "iuf" else {}
            ymap = {"Fortran order": "column of a C-ordered table", "strided window of a larger table": "every second element",
                    "negative strides": "negative stride", "transposed window": "column of a C-ordered table", "read-only": "read-only"}
            for lname, Xl in lx:
                dl = dict(D[i])
                dl["X"] = Xl
                if ly:
                    dl["y"] = ly[ymap[lname]]
                trans += 1
                try:
                    est = make()
                    numpy.random.seed(0)
                    K.fit_raw(est, kind, dl)
                    o = K.observe(est, kind, D[i])
                except Exception as ex:
                    bad("fit raises %s on a non-contiguous training set that fits when contiguous" % type(ex).__name__, "memory layout",
                        "%s layout=%s variant=%s data=%d" % (str(ex)[:200], lname, case["variant"], i))
                    continue
                a1 = {k_: v_ for k_, v_ in a[1].items() if k_ != "n_iter_"}     # iteration counts follow last-bit differences of BLAS kernels
                d = K.same_obs(a1, {k_: v_ for k_, v_ in o.items() if k_ != "n_iter_"})
                if d and _ill_conditioned(K, make, kind, D[i], a1, numpy):
                    skipped_ill += 1
                    continue
                if d:
                    bad("model depends on the memory layout of the training set", "memory layout: " + lname,
                        "%s variant=%s data=%d" % (d, case["variant"], i))
    for L in range(2, case["L"] + 1):
        for seq in itertools.product(range(nd), repeat=L):
            for g, between in ((0, False), (1, True), (0, True)):
                last = seq[-1]
                fo = fresh_obs(last, g)
                cnt += 1
                if seq[-1] != seq[-2]:
                    ntriv += 1
                est = make()
                hdesc = "variant=%s fit sequence over data sets %r global seed %d%s" % (
                    case["variant"], list(seq), g, " with predictions between the fits" if between else "")
                ok = True
                for i in seq[:-1]:
                    trans += 1
                    try:
                        numpy.random.seed(g)
                        K.fit(est, kind, D[i])
                        if between:
                            try:
                                K.observe(est, kind, D[i])   # prediction calls between fits (lazy caches are built here)
                            except Exception:
                                pass
                    except Exception:
                        ok = False
                        break
                if not ok:
                    continue
                trans += 1
                try:
                    o = fit_obs(est, last, g)
                except Exception as ex:
                    if fo[0] == "ok":
                        bad("refit raises %s but a fresh clone fits" % type(ex).__name__, "refit", "%s %s" % (str(ex)[:200], hdesc))
                    continue
                if fo[0] != "ok":
                    bad("refit succeeds where a fresh clone raises", "refit", "%s %s" % (fo[1], hdesc))
                    continue
                d = K.same_obs(fo[1], o)
                if d:
                    prev, cur = D[seq[-2]], D[last]
                    shape = "same shape" if getattr(prev.get("X"), "shape", None) == getattr(cur.get("X"), "shape", None) else "different shape"
                    bad("refitted model differs from a fresh clone fitted on the same data", shape, "%s %s" % (d, hdesc))
    # ---- set_params between two fits: fit(Da); set_params(k=v); fit(Db) must equal a fresh object given k=v and fitted on Db
    from checks import c01 as P1
    try:
        keys = P1._curated(make(), e["strs"], 8, e["skip"], every=True)
    except Exception:
        keys = []
    for (k, _cat) in keys:
        if k.rsplit("__", 1)[-1].endswith("warm_start"):
            continue    # warm_start=True asks for state to be carried over: outside the property
        for (da, db) in ((0, 0), (0, 1), (1, 0)):
            if db >= nd or da >= nd:
                continue
            cnt += 1
            hdesc = "variant=%s fit(data %d); set_params(%s=...); fit(data %d)" % (case["variant"], da, k, db)
            try:
                est = make()
                ok_, nv = P1._fresh_value(k, est.get_params(deep=True)[k], e["strs"], est, e["skip"])
                ref = make()
                ref.set_params(**{k: nv})
                if K.is_est(nv):
                    # an estimator-valued key: the reference is rebuilt through the constructor from what get_params reports, so that
                    # anything the constructor derives from the estimator's class is derived from the NEW estimator
                    from sklearn.base import clone as _clone
                    ref = _clone(ref)
                try:
                    fo = ("ok", fit_obs(ref, db, 0))
                except Exception as ex:
                    fo = ("raises", type(ex).__name__)
                numpy.random.seed(0)
                K.fit(est, kind, D[da])
                try:
                    K.observe(est, kind, D[da])
                except Exception:
                    pass
                ok2, nv2 = P1._fresh_value(k, est.get_params(deep=True)[k], e["strs"], est, e["skip"])
                est.set_params(**{k: nv2})
                trans += 3
                try:
                    o = ("ok", fit_obs(est, db, 0))
                except Exception as ex:
                    o = ("raises", type(ex).__name__)
            except Exception:
                continue     # the parameter protocol itself is C01's business
            if fo[0] != o[0]:
                bad("refit after set_params %s but a fresh object with the same parameters %s" % (
                    "raises" if o[0] == "raises" else "fits", "fits" if fo[0] == "ok" else "raises"), "set_params between fits",
                    "%r vs %r %s" % (o[1] if o[0] == "raises" else "ok", fo[1] if fo[0] == "raises" else "ok", hdesc))
            elif fo[0] == "ok":
                # attribute NAMES left over from the earlier fit are not violations unless an output changes (design 4/C03)
                meths = {"predict", "predict_proba", "transform", "transform.columns", "transform_y", "transform_y_closest"}
                common = {kk for kk in set(fo[1]) | set(o[1]) if kk in meths or (kk in fo[1] and kk in o[1])}
                d = K.same_obs({kk: v for kk, v in fo[1].items() if kk in common}, {kk: v for kk, v in o[1].items() if kk in common})
                if d:
                    bad("refit after set_params differs from a fresh object with the same parameters", "set_params between fits", "%s %s" % (d, hdesc))
    return {"viol": viol, "nontrivial": ntriv > 0, "states": cnt, "transitions": trans, "outcome": (cls, case["variant"]),
            "counters": {"layout comparisons skipped as ill-conditioned (model changes under a 1-ulp perturbation)": skipped_ill}}
