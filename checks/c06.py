"""C06 — KMeansL1L2: L1 self-consistent in Manhattan geometry, L2 identical to KMeans (input explorer).

All multisets of n points on small grids (every L1 observable is permutation-equivariant in the rows; a
second, non-sorted row order of each multiset is run as well), k = 1..#distinct, init modes, seeds, n_init,
dtype, norm.
"""
import itertools

PROPERTY = "C06"
RULE = ("every multiset of n grid points (1-D grid {0..3}, 2-D grid {0,1,2}^2) with n in the bound x k<=#distinct "
        "x init in {k-means++, random, explicit} x random_state x n_init x dtype x norm; non-trivial = k>=2 and "
        "duplicates or ties present")
ASSUMPTIONS = ["uniform sample weights (non-uniform weights are refused by the L1 path by design)",
               "sklearn.cluster.KMeans with the same arguments is the L2 reference; "
               "sklearn.metrics.pairwise.manhattan_distances computed independently in NumPy for L1"]


def bounds(tier):
    return {"n1d": 5 if tier == "quick" else 7, "n2d": 3 if tier == "quick" else 4,
            "seeds": [0, 1, 2] if tier == "quick" else [0, 1, 2, 3, 4, 5]}


def cases(tier, seed):
    b = bounds(tier)
    grid1 = [(float(v),) for v in range(4)]
    grid2 = [(float(a), float(c)) for a in range(3) for c in range(3)]
    for grid, nmax, name in ((grid1, b["n1d"], "1d"), (grid2, b["n2d"], "2d")):
        for n in range(1, nmax + 1):
            for ms in itertools.combinations_with_replacement(range(len(grid)), n):
                pts = [list(grid[i]) for i in ms]
                yield {"pts": pts, "grid": name, "seeds": b["seeds"]}
    for shape in BIG + ([(5003, 40, 50), (100003, 2, 40)] if tier == "thorough" else []):
        for dt in ("float64", "float32"):
            yield {"shape": list(shape), "dtype": dt}
    for shape in ((61, 2, 3), (45, 1, 4), (90, 3, 5)):
        for dt, units in (("float64", (1e-170, 1e-30, 1e-6, 1e30, 1e150)), ("float32", (1e-30, 1e-6, 1e30))):
            for unit in units:
                for init in ("random", "k-means++"):
                    for rs in (0, 1):
                        yield {"shape": list(shape), "dtype": dt, "unit": unit, "init": init, "max_iter": 300, "rs": rs}


BIG = [(1101, 10, 100), (2501, 40, 50), (701, 64, 100), (40001, 2, 60), (9001, 3, 33)]


def _big(case):
    """Shapes whose n_samples x n_clusters x n_features product passes 2^20 .. 2^23 (block-wise distance computations only
    split beyond such sizes), row counts that are no multiple of any power of two."""
    import numpy
    import warnings
    from mlinsights.mlmodel import KMeansL1L2
    warnings.simplefilter("ignore")
    n, d, k = case["shape"]
    viol = []
    rs = numpy.random.RandomState(n + d + k)
    X = numpy.round(rs.uniform(-4, 4, size=(n, d)), 2).astype(case["dtype"])
    cond = "init=random,distinct points,n*k*d=2^%d" % int(numpy.log2(n * d * k))
    unit = float(case.get("unit", 1.0))
    if "unit" in case:
        # the same cloud expressed in another unit (1e-30 ... 1e150): Manhattan geometry has no preferred scale
        X = (X.astype(numpy.float64) * unit).astype(case["dtype"])
        cond = "init=%s,distinct points,data in units far from 1" % case["init"]

    def bad(kind, msg):
        viol.append({"sig": "KMeansL1L2|%s|%s" % (kind, cond), "msg": "%s shape=%r dtype=%s" % (msg, case["shape"], case["dtype"])})
    try:
        m = KMeansL1L2(n_clusters=k, norm="L1", init=case.get("init", "random"), n_init=1, max_iter=case.get("max_iter", 3), random_state=case.get("rs", 0)).fit(X)
        C = numpy.asarray(m.cluster_centers_, dtype=numpy.float64)
        lab = numpy.asarray(m.labels_)
        D = numpy.empty((n, k))
        X64 = X.astype(numpy.float64)
        for j in range(k):
            D[:, j] = numpy.abs(X64 - C[j]).sum(axis=1)
        tol = (1e-6 if case["dtype"] == "float64" else 1e-3) * unit
        own = D[numpy.arange(n), lab]
        if lab.shape != (n,) or lab.min() < 0 or lab.max() >= k:
            bad("L1 labels invalid", "")
        elif (own > D.min(axis=1) + tol).any():
            w = numpy.nonzero(own > D.min(axis=1) + tol)[0]
            bad("L1 label is not a nearest centre", "%d of %d training points, first row %d" % (len(w), n, w[0]))
        if abs(float(m.inertia_) - D.min(axis=1).sum()) > tol * n:
            bad("L1 inertia_ != sum of distances to nearest centre", "%r vs %r" % (m.inertia_, D.min(axis=1).sum()))
        if (C < X64.min(axis=0) - 1e-9 * unit).any() or (C > X64.max(axis=0) + 1e-9 * unit).any() or not numpy.isfinite(C).all():
            bad("L1 centre outside data range", "")
        pl = numpy.asarray(m.predict(X))
        if (D[numpy.arange(n), pl] > D.min(axis=1) + tol).any():
            w = numpy.nonzero(D[numpy.arange(n), pl] > D.min(axis=1) + tol)[0]
            bad("L1 predict not a nearest centre", "%d of %d rows, first row %d" % (len(w), n, w[0]))
        T = numpy.asarray(m.transform(X))
        if T.shape != D.shape or numpy.abs(T - D).max() > tol * d:
            bad("L1 transform != Manhattan distances", "max diff %r" % (numpy.abs(T - D).max() if T.shape == D.shape else T.shape,))
    except Exception as e:
        bad("L1 fit raises %s" % type(e).__name__, str(e)[:200])
    return {"viol": viol, "nontrivial": True, "states": 1, "transitions": n, "outcome": ("big",) + tuple(case["shape"])}


def _man(A, B):
    import numpy
    return numpy.abs(A[:, None, :].astype(numpy.float64) - B[None, :, :].astype(numpy.float64)).sum(axis=2)


def run_case(case):
    if "shape" in case:
        return _big(case)
    import numpy
    import warnings
    from sklearn.cluster import KMeans
    from mlinsights.mlmodel import KMeansL1L2

    warnings.simplefilter("ignore")
    pts = case["pts"]
    n = len(pts)
    distinct = len(set(map(tuple, pts)))
    viol = []
    sigs = set()
    cnt = 0
    outcomes = set()

    def bad(kind, cond, msg):
        sig = "KMeansL1L2|%s|%s" % (kind, cond)
        if sig not in sigs:
            sigs.add(sig)
            viol.append({"sig": sig, "msg": msg})

    orders = [list(range(n))]
    alt = [(i * 2 + 1) % n for i in range(n)] if n % 2 else list(range(n))[::-1]
    if sorted(alt) == list(range(n)) and alt != orders[0]:
        orders.append(alt)
    probes_base = numpy.array(sorted(set(map(tuple, pts))) + [tuple(v + 0.5 for v in pts[0]), tuple(v - 1.0 for v in pts[-1])])
    # (order, dtype, affine map): the same multiset translated far from the origin / in a tiny unit (float64 only):
    # every clause of the L1 statement is invariant under x -> a*x + b
    variants = [(oi, order, dt, 1.0, 0.0) for oi, order in enumerate(orders) for dt in (numpy.float64, numpy.float32)]
    variants += [(0, orders[0], numpy.float64, 1.0, 1.0e6), (0, orders[0], numpy.float64, 1.0e-9, 0.0), (0, orders[0], numpy.float64, 1.0e-3, 1.0e3)]
    variants = [v + (None,) for v in variants]
    # the same rows stored behind other memory layouts (every clause is about values)
    from checks.catalog import layouts
    lay_names = [nm for nm, _ in layouts(numpy.zeros((2, len(pts[0]))))][1:]
    variants += [(0, orders[0], numpy.float64, 1.0, 0.0, nm) for nm in lay_names]
    for (oi, order, dtype, sc_a, sc_b, lay) in variants:
        if True:
            X = (numpy.array([pts[i] for i in order], dtype=numpy.float64) * sc_a + sc_b).astype(dtype)
            affine = (sc_a, sc_b) != (1.0, 0.0) or lay is not None
            if lay is not None:
                X = dict(layouts(X))[lay]
            tolu = 1e-6 * sc_a
            lo, hi = X.min(axis=0), X.max(axis=0)
            probes64 = probes_base * sc_a + sc_b
            for k in range(1, distinct + 1):
                # explicit init: first k distinct points, and the k last distinct points
                dp = sorted(set(map(tuple, X.astype(numpy.float64).tolist())))
                inits = [("k-means++", None), ("random", None),
                         ("array", numpy.array(dp[:k], dtype=dtype)), ("array", numpy.array(dp[-k:], dtype=dtype))]
                for iname, iarr in inits:
                    for rs in (case["seeds"] if iarr is None else [0]):
                        for n_init in ((1, 2) if iarr is None else (1,)):
                            if oi == 1 and (dtype is numpy.float32 or n_init == 2):
                                continue
                            if affine and (n_init == 2 or rs > 1):
                                continue
                            init = iname if iarr is None else iarr
                            dup = ("duplicates" if distinct < n else "distinct points") + (
                                ",X stored as a non-contiguous/read-only array" if lay is not None else (",affine image of the grid" if affine else ""))
                            desc = "X=%r dtype=%s k=%d init=%s random_state=%d n_init=%d%s" % (
                                X.tolist(), numpy.dtype(dtype).name, k, iname if iarr is None else iarr.tolist(), rs, n_init, "" if lay is None else " layout=" + lay)
                            # ---------------- L1
                            X0 = X.copy()
                            cnt += 1
                            try:
                                m = KMeansL1L2(n_clusters=k, init=init, random_state=rs, n_init=n_init, norm="L1")
                                r = m.fit(X)
                            except Exception as e:
                                bad("L1 fit raises %s" % type(e).__name__, "init=%s,%s" % (iname, dup), "%s %s" % (e, desc))
                                m = None
                            if m is not None:
                                cond = "init=%s,%s" % (iname, dup)
                                if r is not m:
                                    bad("fit does not return self", cond, desc)
                                if not numpy.array_equal(X, X0):
                                    bad("X modified", cond, desc)
                                C = numpy.asarray(m.cluster_centers_)
                                lab = numpy.asarray(m.labels_)
                                outcomes.add((k, tuple(sorted(numpy.bincount(lab, minlength=k).tolist()))))
                                if C.shape != (k, X.shape[1]) or not numpy.isfinite(C).all():
                                    bad("L1 centres not finite", cond, "%r %s" % (C.tolist(), desc))
                                else:
                                    if (C < lo - 1e-6 * tolu).any() or (C > hi + 1e-6 * tolu).any():
                                        bad("L1 centre outside data range", cond, "%r %s" % (C.tolist(), desc))
                                    D = _man(X, C)
                                    if lab.shape != (n,) or lab.min() < 0 or lab.max() >= k:
                                        bad("L1 labels invalid", cond, "%r %s" % (lab.tolist(), desc))
                                    else:
                                        own = D[numpy.arange(n), lab]
                                        if (own > D.min(axis=1) + tolu).any():
                                            i = int(numpy.argmax(own - D.min(axis=1)))
                                            bad("L1 label is not a nearest centre", cond,
                                                "point %r label %d dist %r nearest %r centres %r %s" % (
                                                    X[i].tolist(), lab[i], own[i], D[i].min(), C.tolist(), desc))
                                        if abs(float(m.inertia_) - D.min(axis=1).sum()) > 1e-5 * max(sc_a, D.min(axis=1).sum()):
                                            bad("L1 inertia_ != sum of distances to nearest centre", cond,
                                                "%r vs %r %s" % (m.inertia_, D.min(axis=1).sum(), desc))
                                    P = probes64.astype(dtype)
                                    if lay is not None:
                                        P = dict(layouts(P))[lay]
                                    try:
                                        pl = numpy.asarray(m.predict(P))
                                        T = numpy.asarray(m.transform(P))
                                        DP = _man(P, C)
                                        if T.shape != DP.shape or numpy.abs(T - DP).max() > 1e-5 * max(sc_a, abs(sc_b) * 1e-6 + sc_a):
                                            bad("L1 transform != Manhattan distances", cond, desc)
                                        if (DP[numpy.arange(len(P)), pl] > DP.min(axis=1) + tolu).any():
                                            bad("L1 predict not a nearest centre", cond, desc)
                                    except Exception as e:
                                        bad("L1 predict/transform raises %s" % type(e).__name__, cond, "%s %s" % (e, desc))
                                    # queries in the other float width than the training data; the float64 ones sit 1e-9 off the
                                    # bisector of two centres (not representable in float32): the distances are those of the
                                    # query as given, and the 1e-9 decides which centre is nearest
                                    if not affine and iarr is None and n_init == 1:
                                        other = numpy.float64 if dtype is numpy.float32 else numpy.float32
                                        C64 = C.astype(numpy.float64)
                                        qs = [probes64]
                                        if other is numpy.float64:
                                            qs.append(probes64 + 1e-9)
                                            for a_ in range(k):
                                                for b_ in range(a_ + 1, k):
                                                    mid = (C64[a_] + C64[b_]) / 2
                                                    step = numpy.sign(C64[b_] - C64[a_]) * 1e-9
                                                    qs.append(numpy.array([mid + step, mid - step]))
                                        Q = numpy.vstack(qs).astype(other)
                                        ccond = cond + ",fit %s query %s" % (numpy.dtype(dtype).name, numpy.dtype(other).name)
                                        try:
                                            plq = numpy.asarray(m.predict(Q))
                                            Tq = numpy.asarray(m.transform(Q))
                                            DQ = _man(Q, C)
                                            if Tq.shape != DQ.shape or numpy.abs(Tq - DQ).max() > (1e-12 if other is numpy.float64 else 1e-5):
                                                bad("L1 transform != Manhattan distances", ccond, "max diff %r %s" % (numpy.abs(Tq - DQ).max(), desc))
                                            if (DQ[numpy.arange(len(Q)), plq] > DQ.min(axis=1) + (1e-13 if other is numpy.float64 else tolu)).any():
                                                i_ = int(numpy.argmax(DQ[numpy.arange(len(Q)), plq] - DQ.min(axis=1)))
                                                bad("L1 predict not a nearest centre", ccond, "query %r -> centre %d, distances %r %s" % (
                                                    Q[i_].tolist(), plq[i_], DQ[i_].tolist(), desc))
                                        except Exception as e:
                                            bad("L1 predict/transform raises %s" % type(e).__name__, ccond, "%s %s" % (e, desc))
                            # ---------------- L2
                            if oi == 0 and not affine:
                                cnt += 1
                                try:
                                    ref = KMeans(n_clusters=k, init=init, random_state=rs, n_init=n_init).fit(X)
                                except Exception:
                                    ref = None
                                try:
                                    m2 = KMeansL1L2(n_clusters=k, init=init, random_state=rs, n_init=n_init, norm="L2").fit(X)
                                except Exception as e:
                                    m2 = None
                                    if ref is not None:
                                        bad("L2 fit raises %s" % type(e).__name__, "init=%s" % iname, "%s %s" % (e, desc))
                                if ref is not None and m2 is not None:
                                    P = probes64.astype(dtype)
                                    same = (numpy.array_equal(ref.labels_, m2.labels_)
                                            and numpy.array_equal(ref.cluster_centers_, m2.cluster_centers_)
                                            and ref.inertia_ == m2.inertia_ and ref.n_iter_ == m2.n_iter_
                                            and numpy.array_equal(ref.predict(P), m2.predict(P))
                                            and numpy.array_equal(ref.transform(P), m2.transform(P)))
                                    if not same:
                                        bad("L2 differs from sklearn KMeans", "init=%s" % iname, desc)
    # L2 with the remaining forms of init / n_init scikit-learn accepts: n_init='auto' and a callable init
    if distinct >= 2:
        Xa = numpy.array(pts, dtype=numpy.float64)

        def init_callable(X_, k_, random_state):
            idx = random_state.permutation(X_.shape[0])[:k_]
            return X_[idx] + 0.01 * numpy.arange(k_)[:, None]
        dpa = sorted(set(map(tuple, Xa.tolist())))
        for k in range(1, min(distinct, 3) + 1):
            for iname, init in (("k-means++", "k-means++"), ("random", "random"), ("callable", init_callable), ("array", numpy.array(dpa[:k]))):
                for n_init in ("auto", 3):
                    for rs, (wname, sw) in itertools.product(case["seeds"][:3], (("none", None), ("constant 3", numpy.full(n, 3.0)), ("constant 0.25", [0.25] * n),
                                                                                 ("1,2,3 cycling", 1.0 + numpy.arange(n) % 3))):
                        if sw is not None and (rs != case["seeds"][0] or n_init != 3):
                            continue
                        cnt += 1
                        desc = "X=%r k=%d init=%s n_init=%r random_state=%d sample_weight=%s" % (pts, k, iname, n_init, rs, wname)
                        try:
                            ref = KMeans(n_clusters=k, init=init, random_state=rs, n_init=n_init).fit(Xa, sample_weight=sw)
                        except Exception:
                            continue
                        try:
                            m2 = KMeansL1L2(n_clusters=k, init=init, random_state=rs, n_init=n_init, norm="L2").fit(Xa, sample_weight=sw)
                        except Exception as e:
                            bad("L2 fit raises %s" % type(e).__name__, "init=%s,n_init=%s" % (iname, n_init), "%s %s" % (e, desc))
                            continue
                        icond = iname + (",sample_weight" if sw is not None else "")
                        if not (numpy.array_equal(ref.labels_, m2.labels_) and numpy.array_equal(ref.cluster_centers_, m2.cluster_centers_)
                                and ref.inertia_ == m2.inertia_ and numpy.array_equal(ref.predict(probes_base), m2.predict(probes_base))
                                and numpy.array_equal(ref.transform(probes_base), m2.transform(probes_base))):
                            bad("L2 differs from sklearn KMeans", "init=%s,n_init=%s" % (icond, n_init), desc)
    # history: one instance fitted on X, queried, then fitted on a shifted and stretched copy; both norms
    if distinct >= 2:
        X1 = numpy.array(pts, dtype=numpy.float64)
        X2 = X1[::-1] * 3.0 + 5.0
        for norm in ("L1", "L2"):
            for k in (1, min(2, distinct)):
                try:
                    inst = KMeansL1L2(n_clusters=k, init="random", random_state=0, n_init=1, norm=norm)
                    inst.fit(X1)
                    inst.transform(probes_base)
                    inst.predict(probes_base)
                    inst.fit(X2)
                    fresh = KMeansL1L2(n_clusters=k, init="random", random_state=0, n_init=1, norm=norm).fit(X2)
                    cnt += 1
                    P2 = probes_base * 3.0 + 5.0
                    same = (numpy.array_equal(inst.labels_, fresh.labels_) and numpy.array_equal(inst.cluster_centers_, fresh.cluster_centers_)
                            and numpy.array_equal(inst.transform(P2), fresh.transform(P2)) and numpy.array_equal(inst.predict(P2), fresh.predict(P2)))
                    if not same:
                        bad("%s refit differs from a fresh estimator (fit, transform, fit, transform)" % norm, "history", "X=%r k=%d" % (pts, k))
                except Exception as e:
                    bad("%s refit raises %s" % (norm, type(e).__name__), "history", "%s X=%r k=%d" % (str(e)[:150], pts, k))
    return {"viol": viol, "nontrivial": distinct >= 2 and (distinct < n or n >= 3), "states": cnt,
            "transitions": cnt * 3, "outcome": tuple(sorted(outcomes))}
