"""C04 — predictions are a pure per-row function of the model and survive persistence (I over batches, H over
persistence operations).

For every fitted catalogue configuration with row-wise semantics: probe batch P of m rows (training rows, a
duplicate, rows outside the training range -> buckets/leaves/cells unseen at fit time, the midpoint); every non-empty
subset, every permutation and every single row of P must give the rows of the full-batch output; repeated calls agree
bitwise; pickle and clone_with_fitted_parameters, composed to depth 2, give bitwise-equal outputs on P.
"""
import itertools

PROPERTY = "C04"
CASE_TIMEOUT = 300
RULE = ("every fitted configuration x every method in {predict, predict_proba, transform} x every non-empty subset "
        "(2^m-1), permutation (m!) and single row of an m-row probe batch; every composition of <= 2 persistence "
        "operations; non-trivial = batch of >= 2 rows whose rows fall in different buckets/leaves")
ASSUMPTIONS = ["balanced_predictions=True of ConstraintKMeans is excluded as documented; time-series regressors are not row-wise",
               "numeric outputs compared with rtol 1e-9 / atol 1e-12 (BLAS kernels depend on the batch shape); repeated calls "
               "and persisted copies compared bitwise",
               "rows of DecisionTreeLogisticRegression lying within 1e-9 of a node threshold are numerical ties and skipped "
               "(its intercept search places training rows exactly on the boundary)",
               "clone_with_fitted_parameters refusing an estimator with RuntimeError('Cannot migrate ...') is a documented refusal"]


def hang_sig(case):
    return "%s|prediction hangs|variant %s" % (case["cls"], case["variant"])


def bounds(tier):
    return {"m": 6 if tier == "quick" else 7, "persistence_depth": 2}


def cases(tier, seed):
    from mcheck import loader
    loader.load()
    from checks import catalog as K
    m = bounds(tier)["m"]
    for which in ("onehot-ignore", "onehot-ignore-drop", "onehot-infrequent", "kbins-onehot"):
        for kind in ("reg", "clf"):
            yield {"cls": "Piecewise" + ("Regressor" if kind == "reg" else "Classifier"), "variant": "encoder binner", "binner": which, "kind": kind, "m": m}
    for name, e in K.catalogue().items():
        if not e["fit"] or e["kind"] == "ts":
            continue
        for v in e["variants"]:
            for which in ((0,) if tier == "quick" or name == "TransferTransformer" else (0, 3)):
                yield {"cls": name, "variant": v, "m": m, "data": which}


def _rows(P, idx, kind):
    if kind == "text":
        return [P[i] for i in idx]
    if kind == "cat":
        return P.iloc[list(idx)]
    return P[list(idx)]


def _call(est, meth, P, kind, y=None):
    import numpy
    if kind == "recip":
        r = est.transform(P, y)[1]
    else:
        r = getattr(est, meth)(P)
    if hasattr(r, "toarray"):
        r = r.toarray()
    if hasattr(r, "values") and hasattr(r, "columns"):
        r = r.values
    return numpy.asarray(r)


def _eq_exact(a, b):
    import numpy
    if a.shape != b.shape:
        return False
    if a.dtype.kind in "fiub" and b.dtype.kind in "fiub":
        return bool(numpy.array_equal(a, b, equal_nan=True))
    return bool(numpy.array_equal(a.astype(str), b.astype(str)))


def _tie_rows(est, P):
    """DecisionTreeLogisticRegression: rows whose path meets a node probability within 1e-9 of its threshold."""
    out = set()
    if type(est).__name__ != "DecisionTreeLogisticRegression":
        return out
    for i in range(len(P)):
        nd = est.tree_
        while nd is not None:
            p = nd.estimator.predict_proba(P[i:i + 1])[0]
            if abs(p[1] - nd.threshold) < 1e-9 or abs(p[1] - 0.5) < 1e-9:
                out.add(i)
                break
            nd = nd.above if p[1] > nd.threshold else nd.below
    return out


def _encoder_binner(case):
    """Piecewise estimators whose binner is an encoder with a VARYING number of active columns per row (OneHotEncoder ignoring unknown
    categories, with or without a dropped level; KBinsDiscretizer one-hot as the uniform control): every sub-batch (all 2^m - 1 subsets of
    the m probe rows, in given and reversed order) predicts each row as the row alone; repeated calls and a pickle copy agree bitwise."""
    import itertools
    import pickle
    import warnings
    import numpy
    from sklearn.preprocessing import OneHotEncoder, KBinsDiscretizer
    from sklearn.linear_model import LinearRegression, LogisticRegression
    from sklearn.tree import DecisionTreeClassifier
    from mlinsights.mlmodel import PiecewiseRegressor, PiecewiseClassifier
    warnings.simplefilter("ignore")
    viol, sigs = [], set()
    which, kind = case["binner"], case["kind"]
    cls = "PiecewiseRegressor" if kind == "reg" else "PiecewiseClassifier"

    def bad(kind_, msg):
        sig = "%s|%s|binner=%s" % (cls, kind_, which)
        if sig not in sigs:
            sigs.add(sig)
            viol.append({"sig": sig, "msg": msg[:900]})

    def binner():
        if which == "onehot-ignore":
            return OneHotEncoder(handle_unknown="ignore")
        if which == "onehot-ignore-drop":
            return OneHotEncoder(handle_unknown="ignore", drop="first")
        if which == "onehot-infrequent":
            return OneHotEncoder(handle_unknown="infrequent_if_exist", min_frequency=2)
        return KBinsDiscretizer(n_bins=3, encode="onehot", strategy="uniform")
    X = numpy.array([[a, b, (a + 2 * b + c) % 3] for a in range(3) for b in range(3) for c in range(2)], dtype=numpy.float64)
    X = numpy.vstack([X, X[:9]])
    y = 100.0 * X[:, 0] + 10.0 * X[:, 1] + X[:, 2] + 0.25 * numpy.arange(len(X))
    yc = ((X[:, 0] + X[:, 1] + numpy.arange(len(X))) % 2).astype(int)
    try:
        if kind == "reg":
            est = PiecewiseRegressor(binner=binner(), estimator=LinearRegression()).fit(X, y)
            meths = ["predict"]
        else:
            est = PiecewiseClassifier(binner=binner(), estimator=DecisionTreeClassifier(max_depth=2, random_state=0), random_state=0).fit(X, yc)
            meths = ["predict", "predict_proba"]
    except Exception as ex:
        return {"viol": [{"sig": "%s|fit raises %s|binner=%s" % (cls, type(ex).__name__, which), "msg": str(ex)[:300]}], "nontrivial": False}
    P = numpy.array([[1, 2, 0], [1, 7, 0], [7, 7, 2], [2, 0, 1], [0, 1, 9], [5, 2, 9], [0, 0, 0]], dtype=numpy.float64)[:case["m"]]
    cnt = 0
    cp = pickle.loads(pickle.dumps(est))
    for meth in meths:
        try:
            single = [numpy.asarray(getattr(est, meth)(P[i:i + 1]))[0] for i in range(len(P))]
        except Exception as ex:
            bad("%s raises %s on a single row" % (meth, type(ex).__name__), str(ex)[:300])
            continue
        for r in range(1, len(P) + 1):
            for idx in itertools.combinations(range(len(P)), r):
                for order in (idx, idx[::-1]):
                    cnt += 1
                    B = P[list(order)]
                    try:
                        out = numpy.asarray(getattr(est, meth)(B))
                        out2 = numpy.asarray(getattr(est, meth)(B))
                        outp = numpy.asarray(getattr(cp, meth)(B))
                    except Exception as ex:
                        bad("%s raises %s on a batch whose rows predict alone" % (meth, type(ex).__name__), "rows %r: %s" % (list(order), str(ex)[:200]))
                        continue
                    exp = numpy.array([single[i] for i in order])
                    if out.shape != exp.shape or not numpy.allclose(out, exp, rtol=1e-9, atol=1e-12):
                        bad("%s of a row depends on the other rows of the batch" % meth, "rows %r: batch %r, alone %r" % (list(order), out.tolist()[:4], exp.tolist()[:4]))
                    if not numpy.array_equal(out, out2):
                        bad("%s not repeatable" % meth, "rows %r" % (list(order),))
                    if not numpy.array_equal(out, outp):
                        bad("%s differs after a pickle round trip" % meth, "rows %r" % (list(order),))
    return {"viol": viol, "nontrivial": True, "states": cnt, "transitions": cnt * 3, "outcome": (cls, which)}


def run_case(case):
    import pickle
    import warnings
    import numpy
    from checks import catalog as K
    if "binner" in case:
        return _encoder_binner(case)
    from mlinsights.mlmodel.sklearn_testing import clone_with_fitted_parameters

    warnings.simplefilter("ignore")
    viol = []
    sigs = set()
    cls = case["cls"]

    def bad(kind_, cond, msg):
        sig = "%s|%s|%s" % (cls, kind_, cond)
        if sig not in sigs:
            sigs.add(sig)
            viol.append({"sig": sig, "msg": msg[:900]})

    e = K.catalogue()[cls]
    kind = e["kind"]
    dat = K.data(kind, case["data"])
    numpy.random.seed(0)
    est = e["variants"][case["variant"]]()
    if getattr(est, "balanced_predictions", False):
        return {"viol": [], "nontrivial": False}
    try:
        K.fit(est, kind, dat)
    except Exception as ex:
        return {"viol": [], "nontrivial": False, "sample": "fit raises %s" % type(ex).__name__}
    m = case["m"]
    yP = None
    if kind == "text":
        P = (list(dat["X"]) + ["cat", "the the unseen", ""])[:m]
    elif kind == "cat":
        import pandas
        P = pandas.concat([dat["X"], dat["X"].iloc[[0]]], ignore_index=True).iloc[:m]
    else:
        X = dat["X"]
        lo, hi = X.min(axis=0), X.max(axis=0)
        P = numpy.vstack([X[0], X[2], lo - 1.0, hi + 1.0, X[2], (lo + hi) / 2, lo + 0.3 * (hi - lo)])[:m]
        if kind == "recip":
            yP = numpy.resize(dat["y"], m).astype(float)
            yP[-1] = numpy.nan
    m = len(P)
    ties = _tie_rows(est, P) if kind == "clf" else set()
    methods = [mm for mm in ("predict", "predict_proba", "transform") if hasattr(est, mm)] if kind != "recip" else ["transform"]
    full = {}
    for mm in list(methods):
        try:
            full[mm] = _call(est, mm, P, kind, yP)
        except (AttributeError, NotImplementedError):
            methods.remove(mm)
        except Exception as ex:
            bad("%s raises %s on the full batch" % (mm, type(ex).__name__), "full batch", "%s variant=%s" % (str(ex)[:200], case["variant"]))
            methods.remove(mm)
    cnt = 0
    desc0 = "variant=%s data=%d" % (case["variant"], case["data"])

    def compare(mm, idx, got, what):
        exp = full[mm][list(idx)]
        keep = [j for j, i in enumerate(idx) if i not in ties]
        if got.shape != exp.shape:
            bad("%s: %s gives another shape" % (mm, what), "shape", "%r vs %r rows=%r %s" % (got.shape, exp.shape, list(idx), desc0))
            return
        g, x = got[keep], exp[keep]
        if g.dtype.kind in "fiub" and x.dtype.kind in "fiub":
            ok = numpy.allclose(g.astype(float), x.astype(float), rtol=1e-9, atol=1e-12, equal_nan=True)
        else:
            ok = numpy.array_equal(g.astype(str), x.astype(str))
        if not ok:
            bad("%s: a row's output depends on the rest of the batch" % mm, what,
                "rows=%r got %s expected %s %s" % (list(idx), numpy.array2string(g.ravel()[:8], precision=8),
                                                   numpy.array2string(x.ravel()[:8], precision=8), desc0))

    for mm in methods:
        # repeated call bitwise
        again = _call(est, mm, P, kind, yP)
        cnt += 1
        if not _eq_exact(again, full[mm]):
            bad("%s: repeated calls disagree" % mm, "repeat", desc0)
        for size in range(1, m + 1):
            for idx in itertools.combinations(range(m), size):
                cnt += 1
                try:
                    got = _call(est, mm, _rows(P, idx, kind), kind, None if yP is None else yP[list(idx)])
                except Exception as ex:
                    bad("%s raises %s on a sub-batch" % (mm, type(ex).__name__), "single row" if size == 1 else "subset",
                        "%s rows=%r %s" % (str(ex)[:200], list(idx), desc0))
                    continue
                compare(mm, idx, got, "single row" if size == 1 else "subset")
        for idx in itertools.permutations(range(m)):
            cnt += 1
            try:
                got = _call(est, mm, _rows(P, idx, kind), kind, None if yP is None else yP[list(idx)])
            except Exception as ex:
                bad("%s raises %s on a permuted batch" % (mm, type(ex).__name__), "permutation", "%s %s" % (str(ex)[:200], desc0))
                continue
            compare(mm, idx, got, "permutation")
    # the caller overwrites the array a method RETURNED (in place, as a following pipeline step with copy=False would): the next
    # call on the same batch must return the values again
    for mm in methods:
        try:
            r1 = getattr(est, mm)(P) if kind != "recip" else est.transform(P, yP)[1]
            tgt = r1.values if hasattr(r1, "values") and hasattr(r1, "columns") else r1
            if isinstance(tgt, numpy.ndarray) and tgt.dtype.kind in "fiu" and tgt.flags.writeable:
                tgt[...] = 77
            elif hasattr(tgt, "data") and hasattr(tgt, "toarray") and tgt.data.size:
                tgt.data[...] = 77
            else:
                continue
            cnt += 1
            again = _call(est, mm, P, kind, yP)
        except Exception:
            continue
        if not _eq_exact(again, full[mm]):
            bad("%s: repeated calls disagree" % mm, "after the caller overwrote the returned array", desc0)
    # another object of the same configuration constructed and fitted on other data in between: the first model's outputs stay
    # bitwise the same (default estimators, module-level caches and class attributes are not part of "the model")
    try:
        other = e["variants"][case["variant"]]()
        numpy.random.seed(1)
        K.fit(other, kind, K.data(kind, (case["data"] + 1) % 5))
        try:
            K.observe(other, kind, K.data(kind, (case["data"] + 1) % 5))
        except Exception:
            pass
    except Exception:
        other = None
    if other is not None:
        for mm in methods:
            cnt += 1
            try:
                again = _call(est, mm, P, kind, yP)
            except Exception as ex:
                bad("%s raises %s after another instance was fitted" % (mm, type(ex).__name__), "another instance fitted in between", "%s %s" % (str(ex)[:200], desc0))
                continue
            if not _eq_exact(again, full[mm]):
                bad("%s: repeated calls disagree" % mm, "another instance fitted in between", desc0)
    # the caller's batch buffer refilled in place between calls (same array object, other rows), every method first on the one
    # content, then on the other: the output follows the rows that are in the buffer at the time of the call
    if kind in ("reg", "clf", "cluster", "poly", "nmf", "recip"):
        rev = list(range(m))[::-1]
        buf = numpy.array(P, copy=True)
        ybuf = None if yP is None else numpy.array(yP, copy=True)
        for mm in methods:
            try:
                _call(est, mm, buf, kind, ybuf)
            except Exception:
                pass
        buf[...] = P[rev]
        if ybuf is not None:
            ybuf[...] = yP[rev]
        for mm in methods:
            cnt += 1
            try:
                got = _call(est, mm, buf, kind, ybuf)
            except Exception as ex:
                bad("%s raises %s on a refilled buffer" % (mm, type(ex).__name__), "batch buffer refilled in place", "%s %s" % (str(ex)[:200], desc0))
                continue
            compare(mm, rev, got, "batch buffer refilled in place")
    # the same batch as a scipy.sparse matrix where the method accepts one (a column that is zero in the whole batch has no stored entry)
    if kind in ("reg", "clf", "cluster", "poly", "nmf"):
        import scipy.sparse
        Pz = numpy.array(P, copy=True)
        Pz[:, -1] = 0.0
        Pz[0, :] = 0.0
        for mm in methods:
            try:
                dense = _call(est, mm, Pz, kind)
            except Exception:
                continue
            for fmt in ("csr", "csc"):
                try:
                    sp_ = _call(est, mm, scipy.sparse.csr_matrix(Pz) if fmt == "csr" else scipy.sparse.csc_matrix(Pz), kind)
                    one = _call(est, mm, scipy.sparse.csr_matrix(Pz[1:2]), kind)
                except Exception:
                    continue          # sparse input not supported by this method: not this property's business
                cnt += 1
                ok_ = (sp_.shape == dense.shape and (numpy.allclose(sp_.astype(float), dense.astype(float), rtol=1e-9, atol=1e-12, equal_nan=True)
                                                     if sp_.dtype.kind in "fiub" and dense.dtype.kind in "fiub" else numpy.array_equal(sp_.astype(str), dense.astype(str))))
                ok1 = (one.shape[0] == 1 and (numpy.allclose(one.astype(float), dense[1:2].astype(float), rtol=1e-9, atol=1e-12, equal_nan=True)
                                              if one.dtype.kind in "fiub" and dense.dtype.kind in "fiub" else numpy.array_equal(one.astype(str), dense[1:2].astype(str))))
                if not (ok_ and ok1) and 1 not in ties and 0 not in ties:
                    bad("%s: a row's output depends on the rest of the batch" % mm, "sparse batch (%s)" % fmt, desc0)
    # the same batch (same values) stored behind other memory layouts: a row is its values, not where they are kept
    if kind in ("reg", "clf", "cluster", "poly", "nmf", "recip"):
        for lname, Pl in K.layouts(P)[1:]:
            yl = None if yP is None else dict(K.layouts(yP)).get({"Fortran order": "column of a C-ordered table", "strided window of a larger table": "every second element",
                                                                  "negative strides": "negative stride"}.get(lname, "read-only"))
            for mm in methods:
                cnt += 1
                try:
                    got = _call(est, mm, Pl, kind, yl)
                except Exception as ex:
                    bad("%s raises %s on a non-contiguous batch" % (mm, type(ex).__name__), "memory layout", "%s layout=%s %s" % (str(ex)[:200], lname, desc0))
                    continue
                compare(mm, range(m), got, "memory layout: " + lname)
    # a large batch that covers every training row (hence every trained bucket / leaf / cell) plus rows outside the
    # training range: each row alone, and the two halves, must give the rows of the big-batch output
    if kind in ("reg", "clf", "cluster", "poly", "nmf"):
        X = dat["X"]
        lo, hi = X.min(axis=0), X.max(axis=0)
        extra = numpy.array([lo - 1.0, hi + 1.0, (lo + hi) / 2] + [lo + f * (hi - lo) * numpy.array([1.0] + [1.0 - f] * (X.shape[1] - 1))
                                                                    for f in (0.15, 0.35, 0.6, 0.85)])
        B = numpy.vstack([X, extra])
        tb = _tie_rows(est, B) if kind == "clf" else set()
        for mm in methods:
            try:
                big = _call(est, mm, B, kind)
            except Exception as ex:
                bad("%s raises %s on a large batch" % (mm, type(ex).__name__), "large batch", "%s %s" % (str(ex)[:200], desc0))
                continue
            parts = [[i] for i in range(len(B))] + [list(range(0, len(B) // 2)), list(range(len(B) // 2, len(B))), list(range(len(X), len(B)))]
            for idx in parts:
                cnt += 1
                try:
                    got = _call(est, mm, B[idx], kind)
                except Exception as ex:
                    bad("%s raises %s on a sub-batch" % (mm, type(ex).__name__), "large batch", "%s rows=%r %s" % (str(ex)[:200], idx[:5], desc0))
                    break
                keep = [j for j, i in enumerate(idx) if i not in tb]
                g, x = got[keep], big[idx][keep]
                okk = (numpy.allclose(g.astype(float), x.astype(float), rtol=1e-9, atol=1e-12, equal_nan=True)
                       if g.dtype.kind in "fiub" and x.dtype.kind in "fiub" else numpy.array_equal(g.astype(str), x.astype(str)))
                if got.shape[0] != len(idx) or not okk:
                    bad("%s: a row's output depends on the rest of the batch" % mm, "batch covering every training row",
                        "rows=%r alone/sub-batch %s, inside the large batch %s %s" % (idx[:5], numpy.array2string(g.ravel()[:6], precision=6),
                                                                                      numpy.array2string(x.ravel()[:6], precision=6), desc0))
                    break
    # repeated calls with other query dtypes in between: a float32 / integer batch must not leave a trace in the model
    if kind in ("reg", "clf", "cluster", "poly"):
        try:
            d3 = dict(dat)
            d3["X"] = dat["X"] / 3.0 + 0.1           # coordinates (hence centres, thresholds) not float32-representable
            numpy.random.seed(0)
            e3 = e["variants"][case["variant"]]()
            K.fit(e3, kind, d3)
            P3 = numpy.vstack([d3["X"], d3["X"] * 1.0000001 + 1e-7])
            first = {mm: _call(e3, mm, P3, kind) for mm in methods}          # every method first ...
            for mm in methods:                                                # ... then every method on other dtypes ...
                for dt in (numpy.float32, numpy.int64):
                    try:
                        _call(e3, mm, P3.astype(dt), kind)
                    except Exception:
                        pass
            for mm in methods:                                                # ... then every method again
                again = _call(e3, mm, P3, kind)
                cnt += 3
                if not _eq_exact(first[mm], again):
                    bad("%s: repeated calls disagree after calls with another dtype" % mm, "float32/int64 batch in between", desc0)
        except Exception:
            pass     # fitting on the rescaled data is not this clause's business
    # persistence
    def op_pickle(o):
        return pickle.loads(pickle.dumps(o))

    def op_cwfp(o):
        return clone_with_fitted_parameters(o)

    OPS = {"pickle": op_pickle, "clone_with_fitted_parameters": op_cwfp}
    for depth in (1, 2):
        for seq in itertools.product(sorted(OPS), repeat=depth):
            cnt += 1
            o = est
            refused = False
            try:
                for nm in seq:
                    o = OPS[nm](o)
            except RuntimeError as ex:
                if "Cannot migrate" in str(ex) or "Cloned object is missing" in str(ex):
                    refused = True
                else:
                    bad("persistence raises RuntimeError", "+".join(seq), "%s %s" % (str(ex)[:200], desc0))
                    continue
            except Exception as ex:
                bad("persistence raises %s" % type(ex).__name__, "+".join(seq), "%s %s" % (str(ex)[:200], desc0))
                continue
            if refused:
                continue
            if o is est:
                bad("persistence returns the same object", "+".join(seq), desc0)
            for mm in methods:
                try:
                    got = _call(o, mm, P, kind, yP)
                except Exception as ex:
                    bad("%s raises %s on a persisted copy" % (mm, type(ex).__name__), "+".join(seq), "%s %s" % (str(ex)[:200], desc0))
                    continue
                if not _eq_exact(got, full[mm]):
                    bad("%s of a persisted copy differs" % mm, "+".join(seq), desc0)
    return {"viol": viol, "nontrivial": len(methods) > 0, "states": cnt, "transitions": cnt,
            "outcome": (cls, case["variant"], tuple(methods))}
