"""C08 — piecewise estimators: a partition by the binner with one local model per bucket (I x E x S).

Part I x E: every target vector over a 3-value alphabet on small 1-D / 2-D designs x binners (trees of depth 1..3,
'bins', KBinsDiscretizer with 2 / 3 uniform bins) x weights, with *recording* local estimators whose prediction is a
known function of exactly what they were fitted on, and with real LinearRegression / LogisticRegression. Reference
partition computed independently from the fitted binner (apply / discretizer codes).
Part S: for configurations with <= 3 buckets, W in {2,3} virtual workers, every thread schedule with at most
`bound` preemptions (stateless DFS, scheduling point = every source line of the task bodies) for fit, predict and
predict_proba: fitted local models and outputs must equal the sequential (n_jobs=None) result in EVERY schedule.
"""
import itertools

PROPERTY = "C08"
CASE_TIMEOUT = 1500
RULE = ("partition: every target vector over the alphabet on the designs x binner x weights x regressor/classifier; "
        "schedules: every interleaving of the task bodies with <= bound preemptions (line granularity) for fit / predict / "
        "predict_proba with W virtual workers. non-trivial = >= 2 non-empty buckets")
ASSUMPTIONS = ["scheduling granularity is one Python source line of mlinsights code; calls into scikit-learn/NumPy are atomic steps",
               "the unseeded RandomState() used when random_state is None is outside the schedule part (random_state is an integer there)",
               "recording estimators are harness code passed as ordinary `estimator=` arguments"]


def hang_sig(case):
    return "Piecewise|hangs|%s" % case.get("kind")


def bounds(tier):
    return {"partition_n": 6, "schedule_bound": 1 if tier == "quick" else 2, "workers": [2, 3],
            "note": "thorough: bound 2 for W=2 (both configurations) and for W=3 on the regressor configuration; W=3 on the "
                    "class-borrowing configuration stays at bound 1 (bound 2 there exceeds 10^6 schedules)"}


DESIGNS = {
    "line6": [[0.0], [1.0], [2.0], [3.0], [4.0], [5.0]],
    "dup6": [[0.0], [0.0], [1.0], [3.0], [3.0], [4.0]],
    "plane6": [[0.0, 0.0], [1.0, 2.0], [2.0, 1.0], [0.5, 2.5], [2.5, 0.5], [1.5, 1.5]],
}
BINNERS = ["tree1", "tree2", "tree3", "bins", "kb2", "kb3"]
# many feature columns (the discretizer's one-hot signature of a row then has dozens of positions); rows differ in the first
# two columns, in the last two, or everywhere
WIDE = {
    "wide13": [[float(i % 4), float(i // 4)] + [((i * 7 + j * 3) % 5) / 4.0 for j in range(11)] for i in range(16)],
    "wide20": [[((i * 3 + j) % 5) / 4.0 for j in range(18)] + [float(i // 4), float(i % 4)] for i in range(16)],
    "wide64": [[float((i >> (j % 4)) & 1) + 0.25 * ((i + j) % 3) for j in range(64)] for i in range(16)],
    # the number of discretizer CELLS passes 2^64 (4 bins x 34 columns, 2 bins x 66 columns, 8 bins x 23 columns): rows that share the bins
    # of every later column and differ in the first one only
    "cells4x34": [[float(i % 4)] + [float((i // 4 + j) % 4) for j in range(33)] for i in range(16)],
    "cells2x66": [[float(i % 2)] + [float(((i // 2) >> (j % 3)) & 1) for j in range(65)] for i in range(16)],
    "cells8x23": [[float(i % 8)] + [float((i // 8 * 3 + j + (i // 8) * (j % 7)) % 8) for j in range(22)] for i in range(16)],
}
WIDE_BINNERS = {"cells4x34": ("kb4",), "cells2x66": ("kb2",), "cells8x23": ("kb8",)}
DESIGNS_ALL = dict(DESIGNS, **WIDE)


def cases(tier, seed):
    n = 6
    for dname in DESIGNS:
        vecs = list(itertools.product((0, 1, 3), repeat=n))
        ch = 27
        for j, i in enumerate(range(0, len(vecs), ch)):
            for est in ("reg", "clf"):
                if tier == "thorough":
                    binners = BINNERS
                else:
                    # quick: every target with two binners for regressors on two designs; all six binners on the
                    # quarter of the chunks selected by VERIF_SEED; classifiers on the half selected by VERIF_SEED
                    if dname == "dup6" and est == "clf":
                        continue
                    if est == "clf" and (j + seed) % 2:
                        continue
                    binners = BINNERS if (j + seed) % 4 == 0 else ["tree2", "kb2"]
                    if dname == "dup6" and (j + seed) % 4:
                        continue
                yield {"kind": "partition", "design": dname, "ys": [list(v) for v in vecs[i:i + ch]], "est": est, "binners": binners}
    for dname in WIDE:
        for est in ("reg", "clf"):
            ys_w = [[(i * 5 + 1) % 3 if (i * 5 + 1) % 3 < 2 else 3 for i in range(16)], [(0, 1, 3)[(i // 4 + i) % 3] for i in range(16)]]
            for bn in WIDE_BINNERS.get(dname, ("bins", "kb2", "tree3")):
                yield {"kind": "partition", "design": dname, "ys": ys_w[:1] if bn != "bins" else ys_w, "est": est, "binners": [bn]}
    # decision_function with 2..5 classes and local models whose scores have one column per class, one column (binary), or one
    # column per PAIR of classes (SVC ovo)
    for ncls in (2, 3, 4, 5):
        for est in ("logreg", "svc-ovr", "svc-ovo", "recorder"):
            yield {"kind": "decfun", "ncls": ncls, "est": est}
    b = bounds(tier)["schedule_bound"]
    for op in ("fit", "predict", "predict_proba"):
        for W in (2, 3):
            for cfg in ("clf-borrow", "reg"):
                if cfg == "reg" and op == "predict_proba":
                    continue
                heavy = op == "fit" and (tier == "thorough" or (cfg == "clf-borrow" and W == 3))
                bb = b
                if tier == "thorough" and op == "fit" and cfg == "clf-borrow" and W == 3:
                    bb = 1      # bound 2 with three workers on the 100-point borrowing trace is > 10^6 schedules: not affordable
                K = (48 if (cfg == "clf-borrow" and bb == 2) else 8) if (heavy and tier == "thorough") else (6 if heavy else 1)
                for k in range(K):
                    yield {"kind": "schedule", "op": op, "W": W, "cfg": cfg, "bound": bb, "part": [k, K]}
    yield {"kind": "freerun"}


def weight(case):
    return 100 if case["kind"] == "schedule" and case["op"] == "fit" else 1


# ------------------------------------------------------------------ recording estimators
_REC = None


def _rec_classes():
    global _REC
    if _REC is not None:
        return _REC
    import numpy
    from sklearn.base import BaseEstimator, RegressorMixin, ClassifierMixin

    def wmean(y, w):
        w = numpy.ones(len(y)) if w is None else w
        return float((w * y).sum() / w.sum())

    class RecReg(BaseEstimator, RegressorMixin):
        def fit(self, X, y, sample_weight=None):
            self.seen_ = (numpy.array(X, copy=True), numpy.array(y, copy=True),
                          None if sample_weight is None else numpy.array(sample_weight, copy=True))
            self.mean_ = wmean(self.seen_[1].astype(float), self.seen_[2])
            self.ref_ = (X, y, sample_weight)       # kept without copying, as kernel / lazy learners do
            return self

        def predict(self, X):
            return self.mean_ + 0.001 * numpy.asarray(X)[:, 0] + 1000.0 * len(self.seen_[1])

    class RecClf(BaseEstimator, ClassifierMixin):
        def fit(self, X, y, sample_weight=None):
            self.seen_ = (numpy.array(X, copy=True), numpy.array(y, copy=True),
                          None if sample_weight is None else numpy.array(sample_weight, copy=True))
            self.classes_ = numpy.unique(self.seen_[1])
            w = numpy.ones(len(y)) if sample_weight is None else self.seen_[2]
            cnt = numpy.array([w[self.seen_[1] == c].sum() + 1.0 + 0.01 * k for k, c in enumerate(self.classes_)])
            self.p_ = cnt / cnt.sum()
            self.ref_ = (X, y, sample_weight)
            return self

        def predict_proba(self, X):
            return numpy.tile(self.p_, (numpy.asarray(X).shape[0], 1))

        def predict(self, X):
            return numpy.full((numpy.asarray(X).shape[0],), self.classes_[int(numpy.argmax(self.p_))])

        def decision_function(self, X):
            return self.predict_proba(X)

    _REC = (RecReg, RecClf, wmean)
    return _REC


def _binner(name, clf):
    from sklearn.tree import DecisionTreeRegressor, DecisionTreeClassifier
    from sklearn.preprocessing import KBinsDiscretizer
    if name.startswith("tree"):
        d = int(name[4:])
        return (DecisionTreeClassifier if clf else DecisionTreeRegressor)(max_depth=d, random_state=0)
    if name == "bins":
        return "bins"
    return KBinsDiscretizer(n_bins=int(name[2:]), strategy="uniform")


def _codes(model, X):
    """Independent bucket id of every row from the fitted binner."""
    import numpy
    b = model.binner_
    if hasattr(b, "tree_"):
        return [int(v) for v in b.apply(X)]
    t = b.transform(X)
    t = t.toarray() if hasattr(t, "toarray") else numpy.asarray(t)
    return [tuple(int(v) for v in r) for r in t]


def _partition(case, bad):
    import warnings
    import numpy
    from sklearn.linear_model import LinearRegression, LogisticRegression
    from mlinsights.mlmodel import PiecewiseRegressor, PiecewiseClassifier

    warnings.simplefilter("ignore")
    RecReg, RecClf, wmean = _rec_classes()
    X = numpy.array(DESIGNS_ALL[case["design"]], dtype=numpy.float64)
    n, d = X.shape
    lo, hi = X.min(axis=0), X.max(axis=0)
    if d <= 3:
        grid = numpy.array(list(itertools.product(*[numpy.linspace(lo[j] - 0.5, hi[j] + 0.5, 5) for j in range(d)])))
    else:
        grid = numpy.vstack([X + 0.1, X * 0.9 - 0.05, X[::-1] * 0.5 + 0.5 * X, [lo - 0.5], [hi + 0.5]])
    P = numpy.vstack([X, grid])
    clf = case["est"] == "clf"
    cnt = ntriv = 0
    from checks.catalog import layouts as K_layouts
    first_ys = next((v for v in case["ys"] if not clf or len(set(v)) >= 2), None)
    for ys in case["ys"]:
        if clf and len(set(ys)) < 2:
            continue
        labmap = {0: 3, 1: 7, 3: 10}     # non-contiguous integer labels
        y = numpy.array([labmap[v] for v in ys]) if clf else numpy.array(ys, dtype=numpy.float64)
        for bname in case["binners"]:
            for wflag in (False, True):
                w = (1.0 + numpy.arange(n) % 3) if wflag else None
                forms = [("", X, y, w)]
                if ys is first_ys:
                    pair = {"Fortran order": "column of a C-ordered table", "strided window of a larger table": "every second element",
                            "negative strides": "negative stride", "transposed window": "column of a C-ordered table", "read-only": "read-only"}
                    for nm_, Xl_ in K_layouts(X)[1:]:
                        forms.append((" training set stored as: " + nm_, Xl_, dict(K_layouts(y))[pair[nm_]],
                                      None if w is None else dict(K_layouts(w))[pair[nm_]]))
                for real, (fdesc, Xfit, yfit, wfit) in itertools.product((False, True), forms):
                    desc = "design=%s y=%r binner=%s weights=%s estimator=%s%s" % (
                        case["design"], y.tolist(), bname, wflag, ("real" if real else "recorder") + ("-clf" if clf else "-reg"), fdesc)
                    cond = "%s,%s" % ("classifier" if clf else "regressor", "tree binner" if bname.startswith("tree") else "discretizer binner")
                    if clf:
                        est = LogisticRegression() if real else RecClf()
                        model = PiecewiseClassifier(binner=_binner(bname, True), estimator=est, random_state=0)
                    else:
                        est = LinearRegression() if real else RecReg()
                        model = PiecewiseRegressor(binner=_binner(bname, False), estimator=est)
                    X0, y0 = X.copy(), y.copy()
                    numpy.random.seed(0)
                    try:
                        model.fit(Xfit, yfit, sample_weight=wfit)
                    except Exception as ex:
                        bad("fit raises %s" % type(ex).__name__, cond, "%s %s" % (str(ex)[:200], desc))
                        continue
                    cnt += 1
                    if not (numpy.array_equal(Xfit, X0) and numpy.array_equal(yfit, y0)):
                        bad("training data modified", cond, desc)
                    codes = _codes(model, X)
                    pcodes = _codes(model, P)
                    buckets = {}
                    for i, c in enumerate(codes):
                        buckets.setdefault(c, []).append(i)
                    if len(buckets) >= 2:
                        ntriv += 1
                    ests = list(model.estimators_)
                    if len(ests) != len(buckets) or model.n_estimators_ != len(buckets):
                        bad("number of local models != number of non-empty training buckets", cond,
                            "%d models for %d buckets %s" % (len(ests), len(buckets), desc))
                        continue
                    # routing: transform_bins groups rows exactly like the binner does
                    tb = numpy.asarray(model.transform_bins(P))
                    grp = {}
                    okroute = True
                    for i, c in enumerate(pcodes):
                        if c in buckets:
                            if tb[i] < 0 or grp.setdefault(c, tb[i]) != tb[i]:
                                okroute = False
                        elif tb[i] != -1:
                            okroute = False
                    if len(set(grp.values())) != len(grp):
                        okroute = False
                    if not okroute:
                        bad("transform_bins does not route rows by the binner's buckets", cond, "%r vs %r %s" % (tb.tolist()[:12], pcodes[:12], desc))
                        continue
                    allcl = sorted(set(y.tolist()))
                    by_bucket = {}
                    if not real:
                        # exactly the bucket's rows (X, y, w) — classifier: plus one borrowed outside row per missing class
                        for c, rows in buckets.items():
                            e = ests[int(grp[c])] if c in grp else None
                            if e is None or not hasattr(e, "seen_"):
                                bad("bucket without a fitted local model", cond, desc)
                                continue
                            sx, sy, sw = e.seen_
                            seen_rows = [tuple(r) + (float(t),) + ((float(u),) if sw is not None else ()) for r, t, u in
                                         zip(sx.tolist(), sy.tolist(), sw.tolist() if sw is not None else [0] * len(sy))]
                            want = [tuple(X[i].tolist()) + (float(y[i]),) + ((float(w[i]),) if w is not None else ()) for i in rows]
                            if (w is None) != (sw is None):
                                bad("sample weights not passed to / invented for the local model", cond, desc)
                            extra = list(seen_rows)
                            missing_rows = []
                            for r in want:
                                if r in extra:
                                    extra.remove(r)
                                else:
                                    missing_rows.append(r)
                            if missing_rows:
                                bad("local model not trained on all rows of its bucket", cond, "missing %r %s" % (missing_rows[:3], desc))
                            miss_cl = [cl for cl in allcl if cl not in set(y[rows].tolist())] if clf else []
                            if not clf or not miss_cl:
                                if extra:
                                    bad("local model trained on rows outside its bucket", cond, "extra %r %s" % (extra[:3], desc))
                            else:
                                outside = [tuple(X[i].tolist()) + (float(y[i]),) + ((float(w[i]),) if w is not None else ()) for i in range(n) if i not in rows]
                                ecl = sorted(r[d] for r in extra)
                                if ecl != sorted(float(c_) for c_ in miss_cl) or any(r not in outside for r in extra):
                                    bad("classifier bucket does not borrow exactly one outside row per missing class", cond,
                                        "bucket classes %r borrowed %r %s" % (sorted(set(y[rows].tolist())), extra, desc))
                            by_bucket[c] = e
                        for e_ in list(ests) + [model.mean_estimator_]:
                            kept_, seen_ = getattr(e_, "ref_", None), getattr(e_, "seen_", None)
                            if kept_ is None or seen_ is None:
                                continue
                            for a_, b_ in zip(kept_, seen_):
                                if (a_ is None) != (b_ is None) or (a_ is not None and not numpy.array_equal(numpy.asarray(a_), b_)):
                                    bad("training arrays handed to a local model were overwritten after its fit", cond, desc)
                                    break
                        g = model.mean_estimator_
                        if not hasattr(g, "seen_") or len(g.seen_[1]) != n:
                            bad("global fallback model not trained on the whole training set", cond, desc)
                    # dispatch: every row gets its bucket model's output (or the global model's)
                    for meth in (("predict", "predict_proba") if clf else ("predict",)):
                        try:
                            out = numpy.asarray(getattr(model, meth)(P))
                        except Exception as ex:
                            bad("%s raises %s" % (meth, type(ex).__name__), cond, "%s %s" % (str(ex)[:200], desc))
                            continue
                        for i, c in enumerate(pcodes):
                            e = ests[int(grp[c])] if c in grp else model.mean_estimator_
                            exp = numpy.asarray(getattr(e, meth)(P[i:i + 1]))[0]
                            if not numpy.allclose(numpy.asarray(out[i], dtype=float), numpy.asarray(exp, dtype=float), rtol=1e-9, atol=1e-12):
                                bad("a row's %s is not its bucket model's (or the fallback's) output" % meth,
                                    "%s,%s" % (cond, "unseen bucket" if c not in grp else "seen bucket"),
                                    "row %r bucket %r got %r expected %r %s" % (P[i].tolist(), c, numpy.asarray(out[i]).tolist(), numpy.asarray(exp).tolist(), desc))
                                break
                        if clf and meth == "predict_proba":
                            if out.shape != (len(P), len(model.classes_)) or (out < -1e-12).any() or (numpy.abs(out.sum(axis=1) - 1) > 1e-9).any():
                                bad("probabilities are not distributions over classes_", cond, desc)
                        if clf and meth == "predict":
                            if any(v not in set(numpy.asarray(model.classes_).tolist()) for v in out.tolist()):
                                bad("predicted label not in classes_", cond, "%r %s" % (sorted(set(out.tolist())), desc))
                    # the caller's batch buffer refilled in place between two calls (same array object, other rows): outputs follow the
                    # rows that are in the buffer at the time of the call
                    if ys is first_ys or not real:
                        buf = numpy.array(P, copy=True)
                        perm_ = numpy.arange(len(P))[::-1]
                        for meth in (("predict", "predict_proba", "transform_bins") if clf else ("predict", "transform_bins")):
                            try:
                                buf[...] = P
                                o1 = numpy.asarray(getattr(model, meth)(buf))
                                buf[...] = P[perm_]
                                o2 = numpy.asarray(getattr(model, meth)(buf))
                                buf[...] = P
                                o3 = numpy.asarray(getattr(model, meth)(buf))
                            except Exception as ex:
                                bad("%s raises %s" % (meth, type(ex).__name__), cond + ",batch buffer refilled in place", "%s %s" % (str(ex)[:200], desc))
                                continue
                            if not (numpy.allclose(o2.astype(float), o1[perm_].astype(float), rtol=1e-9, atol=1e-12)
                                    and numpy.array_equal(o1, o3)):
                                bad("a row's %s is not its bucket model's (or the fallback's) output" % meth, cond + ",batch buffer refilled in place",
                                    "second call on the same array object after its rows were replaced: %r, expected %r %s" % (
                                        o2.tolist()[:6], o1[perm_].tolist()[:6], desc))
                    # the same rows as float32 / integers: the local models' float64 outputs must come back unchanged
                    for dt in (numpy.float32, numpy.int64):
                        Pd = X.astype(dt)
                        for meth in (("predict", "predict_proba") if clf else ("predict",)):
                            try:
                                out = numpy.asarray(getattr(model, meth)(Pd))
                            except Exception as ex:
                                bad("%s raises %s" % (meth, type(ex).__name__), cond + ",query dtype %s" % numpy.dtype(dt).name, "%s %s" % (str(ex)[:200], desc))
                                continue
                            cd = _codes(model, Pd)
                            for i, c in enumerate(cd):
                                e = ests[int(grp[c])] if c in grp else model.mean_estimator_
                                exp = numpy.asarray(getattr(e, meth)(Pd[i:i + 1]))[0]
                                if not numpy.allclose(numpy.asarray(out[i], dtype=float), numpy.asarray(exp, dtype=float), rtol=1e-12, atol=1e-12):
                                    bad("a row's %s is not its bucket model's (or the fallback's) output" % meth,
                                        "%s,query dtype %s" % (cond, numpy.dtype(dt).name),
                                        "row %r got %r expected %r %s" % (Pd[i].tolist(), numpy.asarray(out[i]).tolist(), numpy.asarray(exp).tolist(), desc))
                                    break
                    if clf and sorted(numpy.asarray(model.classes_).tolist()) != allcl:
                        bad("classes_ is not the label set", cond, "%r %s" % (model.classes_, desc))
    return cnt, ntriv


def _decfun(case, bad):
    import warnings
    import numpy
    from sklearn.linear_model import LogisticRegression
    from sklearn.svm import SVC
    from sklearn.tree import DecisionTreeClassifier
    from mlinsights.mlmodel import PiecewiseClassifier
    warnings.simplefilter("ignore")
    _RecReg, RecClf, _ = _rec_classes()
    ncls = case["ncls"]
    n = 12 * ncls
    X = numpy.array([[float(i), float((i * 7) % 5)] for i in range(n)])
    y = numpy.array([3 + 4 * ((i * 5 + i // 7) % ncls) for i in range(n)])
    P = numpy.vstack([X[::3] + 0.25, [[-3.0, 0.0]], [[n + 5.0, 2.0]]])
    cnt = 0
    for binner in (DecisionTreeClassifier(max_leaf_nodes=3, min_samples_leaf=3 * ncls, random_state=0), "bins"):
        est = {"logreg": LogisticRegression(), "svc-ovr": SVC(decision_function_shape="ovr"), "svc-ovo": SVC(decision_function_shape="ovo"),
               "recorder": RecClf()}[case["est"]]
        cond = "classifier,%s,decision_function,%s classes" % ("tree binner" if not isinstance(binner, str) else "discretizer binner", "2" if ncls == 2 else ">=3")
        desc = "classes=%d local model=%s binner=%s" % (ncls, case["est"], binner)
        try:
            numpy.random.seed(0)
            model = PiecewiseClassifier(binner=binner, estimator=est, random_state=0).fit(X, y)
        except Exception as ex:
            bad("fit raises %s" % type(ex).__name__, cond, "%s %s" % (str(ex)[:200], desc))
            continue
        codes, pcodes = _codes(model, X), _codes(model, P)
        tb = numpy.asarray(model.transform_bins(X))
        grp = {}
        for c_, t_ in zip(codes, tb):
            grp[c_] = int(t_)
        ests = list(model.estimators_)
        try:
            out = numpy.asarray(model.decision_function(P))
        except Exception as ex:
            bad("decision_function raises %s" % type(ex).__name__, cond, "%s %s" % (str(ex)[:200], desc))
            continue
        cnt += 1
        for i, c_ in enumerate(pcodes):
            e_ = ests[grp[c_]] if c_ in grp else model.mean_estimator_
            exp = numpy.asarray(e_.decision_function(P[i:i + 1]))[0]
            if numpy.asarray(out[i]).shape != numpy.asarray(exp).shape or not numpy.allclose(numpy.asarray(out[i], dtype=float), numpy.asarray(exp, dtype=float), rtol=1e-9, atol=1e-12):
                bad("a row's decision_function is not its bucket model's (or the fallback's) output", cond,
                    "row %r got %r expected %r %s" % (P[i].tolist(), numpy.asarray(out[i]).tolist(), numpy.asarray(exp).tolist(), desc))
                break
    return cnt


# ------------------------------------------------------------------ schedules
def _sched_config(cfg):
    import numpy
    from sklearn.tree import DecisionTreeClassifier, DecisionTreeRegressor
    from mlinsights.mlmodel import PiecewiseRegressor, PiecewiseClassifier
    RecReg, RecClf, _ = _rec_classes()
    X = numpy.array([[0.0], [1.0], [2.0], [3.0], [4.0], [5.0]])
    if cfg == "clf-borrow":
        # three buckets, each pure -> each borrows one row for each of the two missing classes through the RNG
        y = numpy.array([3, 3, 7, 7, 10, 10])
        mk = lambda nj: PiecewiseClassifier(binner=DecisionTreeClassifier(max_leaf_nodes=3, random_state=0), estimator=RecClf(),
                                            n_jobs=nj, random_state=0)
    else:
        y = numpy.array([0.0, 1.0, 3.0, 1.0, 0.0, 3.0])
        mk = lambda nj: PiecewiseRegressor(binner=DecisionTreeRegressor(max_leaf_nodes=3, random_state=0), estimator=RecReg(), n_jobs=nj)
    P = numpy.array([[0.5], [2.5], [4.5], [6.5], [-1.0]])
    return X, y, P, mk


def _obs_model(model, P, op):
    import numpy
    import hashlib
    h = []
    for e in model.estimators_:
        sx, sy, sw = e.seen_
        h.append((sx.ravel().tolist(), sy.tolist()))
    out = {"models": h}
    if op in ("predict", "fit"):
        out["predict"] = numpy.asarray(model.predict(P)).tolist()
    if op == "predict_proba":
        out["predict_proba"] = numpy.round(numpy.asarray(model.predict_proba(P)), 12).tolist()
    return out


def _schedule(case, bad):
    import json
    import numpy
    from mcheck import sched
    sched.install()
    try:
        X, y, P, mk = _sched_config(case["cfg"])
        op, W = case["op"], case["W"]
        numpy.random.seed(0)
        seq = mk(None).fit(X, y)
        ref = _obs_model(seq, P, op)
        nb = len(seq.estimators_)
        if nb < 2:
            raise AssertionError("harness: configuration has %d bucket(s)" % nb)
        fitted = None
        if op != "fit":
            numpy.random.seed(0)
            fitted = mk(W).fit(X, y)       # chooser is None here: tasks run in order

        def run_once():
            numpy.random.seed(0)
            try:
                if op == "fit":
                    m = mk(W).fit(X, y)
                    return _obs_model(m, P, "fit")
                return _obs_model(fitted, P, op)
            except Exception as ex:
                return {"raises": "%s: %s" % (type(ex).__name__, str(ex)[:200])}

        execs = 0
        outcomes = {}
        points = 0
        for choices, obs, pts in sched.explore(run_once, case["bound"], part=tuple(case.get("part", (0, 1)))):
            execs += 1
            points = max(points, len(pts))
            key = json.dumps(obs, sort_keys=True)
            if key not in outcomes:
                outcomes[key] = choices
            if obs != ref:
                what = "raises" if "raises" in obs else ("fitted local models" if obs.get("models") != ref.get("models") else "outputs")
                bad("result depends on the thread schedule (n_jobs=%d)" % W, "%s,%s,%s" % (case["cfg"], op, what),
                    "schedule %r gives %s, sequential n_jobs=None gives %s" % (
                        choices[:60], json.dumps(obs)[:300], json.dumps(ref)[:300]))
        # determinism of the explorer: replay the first and the last recorded schedule twice
        for key, choices in list(outcomes.items())[:2]:
            for _ in range(2):
                ch = sched.Chooser(choices)
                sched.ControlledParallel.chooser = ch
                try:
                    o = run_once()
                finally:
                    sched.ControlledParallel.chooser = None
                if json.dumps(o, sort_keys=True) != key:
                    raise AssertionError("harness: schedule replay is not deterministic")
        return execs, len(outcomes), points
    finally:
        sched.uninstall()


def _freerun(bad):
    """Conformance of the scheduler model: real joblib threads, free running; every observed outcome must be the sequential one."""
    import json
    import numpy
    seen = set()
    runs = 0
    for cfg in ("clf-borrow", "reg"):
        X, y, P, mk = _sched_config(cfg)
        numpy.random.seed(0)
        ref = json.dumps(_obs_model(mk(None).fit(X, y), P, "fit"), sort_keys=True)
        for nj in (2, 4):
            for rep in range(25):
                numpy.random.seed(0)
                o = json.dumps(_obs_model(mk(nj).fit(X, y), P, "fit"), sort_keys=True)
                runs += 1
                seen.add((cfg, o == ref))
                if o != ref:
                    bad("result depends on n_jobs (free-running joblib threads)", "%s,fit" % cfg, "n_jobs=%d repetition %d: %s vs %s" % (nj, rep, o[:300], ref[:300]))
    return runs


def run_case(case):
    viol = []
    sigs = set()

    def bad(kind, cond, msg):
        sig = "Piecewise|%s|%s" % (kind, cond)
        if sig not in sigs:
            sigs.add(sig)
            viol.append({"sig": sig, "msg": msg[:1200], "flaky": case["kind"] == "freerun"})

    if case["kind"] == "partition":
        cnt, ntriv = _partition(case, bad)
        return {"viol": viol, "nontrivial": ntriv > 0, "states": cnt, "transitions": cnt * 3, "outcome": (case["design"], case["est"])}
    if case["kind"] == "decfun":
        cnt = _decfun(case, bad)
        return {"viol": viol, "nontrivial": True, "states": cnt, "transitions": cnt, "outcome": ("decfun", case["ncls"], case["est"])}
    if case["kind"] == "schedule":
        execs, nout, pts = _schedule(case, bad)
        return {"viol": viol, "nontrivial": True, "states": execs, "transitions": execs * pts, "outcome": (case["cfg"], case["op"], case["W"], nout),
                "counters": {"schedules_explored": execs, "max_scheduling_points": pts, "distinct_outcomes": nout},
                "sample": {"schedules": execs, "distinct outcomes": nout, "scheduling points per execution": pts}}
    runs = _freerun(bad)
    return {"viol": viol, "nontrivial": True, "states": runs, "transitions": runs, "outcome": "freerun"}
