"""C14 — traceable vectorizers equal scikit-learn's, n-grams kept as token tuples (input explorer).

Documents = every token sequence of length 0..L over a 4-token alphabet (a prefix pair aa/aab, a stop word in
both cases the/The); corpora = every ordered pair of documents; every option combination.
"""
import itertools

PROPERTY = "C14"
RULE = ("every ordered pair of documents (token sequences of length 0..L over {aa,aab,the,The}) x ngram_range x stop_words "
        "x lowercase x min_df x max_df x max_features x binary, for Count and Tfidf; non-trivial = the reference "
        "vocabulary has >= 2 entries")
ASSUMPTIONS = ["default tokenizer/token_pattern; CountVectorizer/TfidfVectorizer of the installed scikit-learn are the reference"]

TOKENS = ("aa", "aab", "the", "The")


def bounds(tier):
    return {"L": 2 if tier == "quick" else 3, "corpus": "ordered pairs, 180 option combinations" if tier == "quick" else "ordered pairs (L<=3; all 480 option combinations for L<=2) + triples"}


RANGES = [(1, 1), (1, 2), (2, 2), (1, 3), (2, 3), (3, 3), (1, 4), (3, 4), (2, 4)]


def _docs(L):
    out = []
    for n in range(0, L + 1):
        for seq in itertools.product(TOKENS, repeat=n):
            out.append(" ".join(seq))
    return out


def cases(tier, seed):
    L = bounds(tier)["L"]
    docs = _docs(L)
    # histories on one instance: fit with range A, set_params(ngram_range=B), fit again -> must equal scikit-learn with B
    for a in RANGES:
        yield {"hist": True, "first_range": list(a)}
    # long documents (thousands of tokens; token-buffer / block sizes), with n-gram ranges spanning 2 to 5 lengths
    for N in (300, 4097, 4099, 9001, 100003, 131073) + ((20001, 70001, 262147) if tier == "thorough" else ()):
        yield {"long": N, "first": [], "second": ["the aab aa", ""], "opts": "long"}
    # documents of four tokens over an alphabet in which different n-grams concatenate to the same string (no+table = not+able)
    coll = [" ".join(t) for t in itertools.product(("no", "not", "able", "table"), repeat=4)]
    for i in range(0, len(coll), 16):
        yield {"first": ["not able no"], "second": coll[i:i + 16], "opts": "collide"}
    if tier == "quick":
        for d1 in docs:
            for d2 in docs:
                yield {"first": [d1], "second": [d2], "opts": "menu"}
    else:
        small = _docs(2)
        for d1 in docs:
            for d2 in docs:
                both_small = d1 in small and d2 in small
                yield {"first": [d1], "second": [d2], "opts": "full" if both_small else "menu"}
        for d1 in _docs(1):
            for d2 in _docs(1):
                yield {"first": [d1, d2], "second": _docs(2), "opts": "menu"}


OPTS = None


MENU = [(1, 1.0, None, False), (2, 1.0, None, False), (1, 0.5, None, False), (1, 1.0, 2, False),
        (1, 1.0, None, True), (2, 0.5, 2, True)]


def _opts(mode="full"):
    global OPTS
    if mode == "collide":
        return [dict(ngram_range=ng, stop_words=None, lowercase=True, min_df=md, max_df=1.0, max_features=None, binary=b)
                for ng in ((1, 2), (2, 2), (2, 3), (1, 3), (3, 3), (0, 0), (0, 1), (0, 2), (0, 3)) for md in (1, 2) for b in (False, True)]
    if mode == "long":
        return [dict(ngram_range=ng, stop_words=sw, lowercase=True, min_df=1, max_df=1.0, max_features=None, binary=b)
                for ng in ((1, 1), (1, 3), (2, 4), (3, 3), (1, 5)) for sw in (None, ["aab"]) for b in (False, True)]
    if mode == "menu":
        return [o for o in _opts("full") if (o["min_df"], o["max_df"], o["max_features"], o["binary"]) in MENU]
    if OPTS is None:
        OPTS = []
        for ng in ((1, 1), (1, 2), (2, 2), (1, 3), (2, 3)):
            for sw in (None, ["aab"], "english"):
                for lower in (True, False):
                    for min_df in (1, 2):
                        for max_df in (1.0, 0.5):
                            for mf in (None, 2):
                                for binary in (False, True):
                                    OPTS.append(dict(ngram_range=ng, stop_words=sw, lowercase=lower, min_df=min_df,
                                                     max_df=max_df, max_features=mf, binary=binary))
    return OPTS


def _run_hist(case):
    import numpy
    from sklearn.feature_extraction.text import CountVectorizer, TfidfVectorizer
    from mlinsights.mlmodel import TraceableCountVectorizer, TraceableTfidfVectorizer
    viol = []
    corpus = ["aa aab the The aa aab", "the aab aab aa", "aa", "The the aab aa the aab The", ""]
    other = ["aab aa aa the", "the The"]
    a = tuple(case["first_range"])
    cnt = 0
    for b in RANGES:
        if b == a:
            continue
        for (Tr, Ref, nm) in ((TraceableCountVectorizer, CountVectorizer, "count"), (TraceableTfidfVectorizer, TfidfVectorizer, "tfidf")):
            for sw in (None, ["aab"]):
                cnt += 1
                desc = "%s ngram_range %r then set_params(ngram_range=%r) stop_words=%r" % (nm, a, b, sw)
                try:
                    tr = Tr(ngram_range=a, stop_words=sw)
                    tr.fit_transform(corpus)
                    tr.transform(other)
                    tr.set_params(ngram_range=b)
                    A = tr.fit_transform(corpus).toarray()
                    A2 = tr.transform(other).toarray()
                    ref = Ref(ngram_range=b, stop_words=sw)
                    B = ref.fit_transform(corpus).toarray()
                    B2 = ref.transform(other).toarray()
                    voc = {" ".join(k): int(v) for k, v in tr.vocabulary_.items()}
                    if A.shape != B.shape or numpy.abs(A - B).max() > 1e-12 or A2.shape != B2.shape or numpy.abs(A2 - B2).max() > 1e-12 \
                            or voc != {k: int(v) for k, v in ref.vocabulary_.items()}:
                        viol.append({"sig": "traceable vectorizer|refit after set_params(ngram_range) differs from scikit-learn|%s" % nm,
                                     "msg": "shapes %r vs %r %s" % (A.shape, B.shape, desc)})
                        break
                except Exception as ex:
                    viol.append({"sig": "traceable vectorizer|refit after set_params(ngram_range) raises %s|%s" % (type(ex).__name__, nm),
                                 "msg": "%s %s" % (str(ex)[:150], desc)})
                    break
    return {"viol": viol[:2], "nontrivial": True, "states": cnt, "transitions": cnt * 4, "outcome": ("hist",)}


def run_case(case):
    import numpy
    import warnings
    from sklearn.feature_extraction.text import CountVectorizer, TfidfVectorizer
    from mlinsights.mlmodel import TraceableCountVectorizer, TraceableTfidfVectorizer

    if case.get("hist"):
        return _run_hist(case)

    warnings.simplefilter("ignore")
    viol = []
    sigs = set()
    cnt = 0
    ntriv = 0

    def bad(kind, cond, msg):
        sig = "traceable vectorizer|%s|%s" % (kind, cond)
        if sig not in sigs:
            sigs.add(sig)
            viol.append({"sig": sig, "msg": msg})

    if "long" in case:
        words = ["aa", "aab", "the", "The", "omega", "is", "b"]
        case = dict(case, first=[" ".join(words[(i * i + 3 * i) % 7] for i in range(case["long"]))])
    docs = case["second"]
    opts = _opts(case["opts"])
    probe = ["aa aab the The aa", "", "the aab aab"]
    for d2 in docs:
        corpus = case["first"] + [d2]
        for o in opts:
            for (Tr, Ref, nm) in ((TraceableCountVectorizer, CountVectorizer, "count"),
                                  (TraceableTfidfVectorizer, TfidfVectorizer, "tfidf")):
                cnt += 1
                sw = o["stop_words"]
                cond = "%s,stop_words=%s,ngram_max=%d" % (nm, "none" if sw is None else ("list" if isinstance(sw, list) else sw),
                                                          o["ngram_range"][1])
                desc = "corpus=%r options=%r" % (corpus if "long" not in case else ["<%d tokens cycling over 7 words>" % case["long"]] + corpus[1:], o)
                try:
                    ref = Ref(**o)
                    Mr = ref.fit_transform(corpus)
                    rerr = None
                except ValueError as e:
                    rerr = e
                try:
                    tr = Tr(**o)
                    Mt = tr.fit_transform(list(corpus))
                    terr = None
                except ValueError as e:
                    terr = e
                except Exception as e:
                    bad("raises %s" % type(e).__name__, cond, "%s %s" % (str(e)[:120], desc))
                    continue
                if (rerr is None) != (terr is None):
                    bad("raises ValueError where scikit-learn does not" if terr else "does not raise where scikit-learn does",
                        cond, "%s | %s | %s" % (str(terr)[:100], str(rerr)[:100], desc))
                    continue
                if rerr is not None:
                    continue
                if len(ref.vocabulary_) >= 2:
                    ntriv += 1
                A, B = Mt.toarray(), Mr.toarray()
                if A.shape != B.shape or (numpy.abs(A - B).max() > (0 if nm == "count" else 1e-12) if A.size else False):
                    bad("document-term matrix differs", cond, "ours=%r sklearn=%r %s" % (A.tolist()[:2] if A.size < 200 else "...", B.tolist()[:2] if B.size < 200 else "...", desc))
                    continue
                voc = tr.vocabulary_
                okv = all(isinstance(k, tuple) and all(isinstance(t, str) for t in k) for k in voc)
                if not okv:
                    bad("vocabulary_ keys are not tuples of tokens", cond, "%r %s" % (list(voc)[:4], desc))
                    continue
                mapped = {" ".join(k): v for k, v in voc.items()}
                if mapped != {k: int(v) for k, v in ref.vocabulary_.items()}:
                    bad("vocabulary_ does not map token tuples to scikit-learn's columns", cond,
                        "ours=%r sklearn=%r %s" % (sorted(voc.items(), key=lambda kv: kv[1]), sorted(ref.vocabulary_.items(), key=lambda kv: kv[1]), desc))
                try:
                    A2, B2 = tr.transform(probe).toarray(), ref.transform(probe).toarray()
                    if A2.shape != B2.shape or numpy.abs(A2 - B2).max() > (0 if nm == "count" else 1e-12):
                        bad("transform of new documents differs", cond, desc)
                except Exception as e:
                    bad("transform raises %s" % type(e).__name__, cond, "%s %s" % (str(e)[:120], desc))
    return {"viol": viol, "nontrivial": ntriv > 0, "states": cnt, "transitions": cnt * 2, "outcome": len(case["first"][0]) if "long" not in case else ("long", case["long"])}
