"""C20 — time-series framing never looks ahead (input explorer, identity series).

y[t] = t so that every output cell *is* the time index it was copied from;
X[t, c] = 1000 + 100 c + t ; w[t] = 2000 + t.
"""
import itertools

PROPERTY = "C20"
RULE = ("every (n, past, delay2, #exogenous columns, weights on/off, same_rows) in the bound with "
        "n - delay2 - past + 2 >= 0 rows, on the identity series y[t]=t; plus ts_mape on every "
        "(y, pred) with y in {0,1,2}^n, pred in {0,1,2,NaN}^n. non-trivial = the table has >= 1 row / "
        "the series is not constant")
ASSUMPTIONS = ["delay1 = 1 and use_all_past = False (the configuration stated in the property)",
               "only slice arithmetic is involved, so the identity series observes it completely"]


def bounds(tier):
    if tier == "quick":
        return {"n": [1, 12], "past": [1, 4], "delay2": [2, 4], "ncol": [0, 2], "mape_n": 4}
    return {"n": [1, 26], "past": [1, 7], "delay2": [2, 7], "ncol": [0, 3], "mape_n": 6}


def cases(tier, seed):
    b = bounds(tier)
    for n in range(b["n"][0], b["n"][1] + 1):
        for past in range(b["past"][0], b["past"][1] + 1):
            for delay2 in range(b["delay2"][0], b["delay2"][1] + 1):
                if n - delay2 - past + 2 < 0:
                    continue
                for ncol in range(b["ncol"][0], b["ncol"][1] + 1):
                    for w in (False, True):
                        for same in (False, True):
                            yield {"kind": "frame", "n": n, "past": past, "delay2": delay2,
                                   "ncol": ncol, "weights": w, "same_rows": same}
    # n = 1 has no previous value: outside the metric's domain
    for n in range(2, b["mape_n"] + 1):
        for y in itertools.product((0, 1, 2), repeat=n):
            yield {"kind": "mape", "y": list(y)}
    # regressors built on the framing: prediction at time t must not depend on y[>t]
    for n in range(4, 9 if tier == "quick" else 13):
        for past in (1, 2, 3):
            for est in ("dummy", "linear"):
                yield {"kind": "regressor", "n": n, "past": past, "est": est}


def _frame(case):
    import numpy
    from mlinsights.timeseries.base import BaseTimeSeries
    from mlinsights.timeseries.utils import build_ts_X_y

    n, past, delay2, ncol = case["n"], case["past"], case["delay2"], case["ncol"]
    same = case["same_rows"]
    viol = []

    def bad(kind, msg):
        viol.append({"sig": "build_ts_X_y|%s|same_rows=%s" % (kind, same), "msg": msg})

    from checks.catalog import layouts
    y_c = numpy.arange(n, dtype=numpy.float64)
    X_c = None
    if ncol:
        X_c = numpy.array([[1000 + 100 * c + t for c in range(ncol)] for t in range(n)],
                          dtype=numpy.float64).reshape(n, ncol)
    w_c = numpy.arange(n, dtype=numpy.float64) + 2000 if case["weights"] else None
    nrow = n - delay2 - past + 2
    # memory layouts of the same series / table / weights: the statement is about values
    pair = {"column of a C-ordered table": "Fortran order", "every second element": "strided window of a larger table",
            "negative stride": "negative strides", "read-only": "read-only"}
    variants = [("C", y_c, X_c, w_c)]
    ly = dict(layouts(y_c))
    lx = dict(layouts(X_c)) if X_c is not None else {}
    lw = dict(layouts(w_c)) if w_c is not None else {}
    for nm1, nm2 in pair.items():
        variants.append(("y " + nm1, ly[nm1], X_c, w_c))
        if X_c is not None or w_c is not None:
            variants.append(("y, X, weights " + nm1, ly[nm1], lx.get(nm2), lw.get(nm1)))
    if X_c is not None:
        variants.append(("X transposed window", y_c, lx["transposed window"], w_c))
    # pandas containers with index labels that are not the positions (framing is positional: row t is the t-th observation)
    if n >= 2 and (n + past + delay2) % 3 == 0:
        import pandas
        perm = [(5 * i + 3) % n for i in range(n)] if n % 5 else [(3 * i + 1) % n for i in range(n)]
        if sorted(perm) != list(range(n)):
            perm = list(range(n))[::-1]
        for iname, idx in (("permuted integers", perm), ("strings", ["r%d" % i for i in range(n)]), ("shifted integers", list(range(-2, n - 2)))):
            ys = pandas.Series(y_c.copy(), index=idx)
            variants.append(("pandas y, index of " + iname, ys, X_c, w_c))
            variants.append(("pandas y, X, weights, index of " + iname, ys, None if X_c is None else pandas.DataFrame(X_c.copy(), index=idx),
                             None if w_c is None else pandas.Series(w_c.copy(), index=idx)))
    sample = None
    for lay, y, X, w in variants:
        r = _frame_one(case, lay, y, X, w, bad, numpy, BaseTimeSeries, build_ts_X_y)
        if lay == "C":
            sample = r
    return {"viol": viol, "nontrivial": nrow > 0, "transitions": max(nrow, 1) * len(variants),
            "outcome": (nrow, past, delay2, ncol), "sample": sample}


def _frame_one(case, lay, y, X, w, bad0, numpy, BaseTimeSeries, build_ts_X_y):
    n, past, delay2, ncol = case["n"], case["past"], case["delay2"], case["ncol"]
    same = case["same_rows"]

    def bad(kind, msg):
        bad0(kind if lay == "C" else kind + "|layout: " + lay, msg + ("" if lay == "C" else " [layout: %s]" % lay))

    y0, X0, w0 = numpy.array(y, copy=True), None if X is None else numpy.array(X, copy=True), None if w is None else numpy.array(w, copy=True)
    model = BaseTimeSeries(past=past, delay1=1, delay2=delay2, use_all_past=False)
    nrow = n - delay2 - past + 2
    try:
        nx, ny, nw = build_ts_X_y(model, X, y, w, same_rows=same)
        nx, ny = numpy.asarray(nx, dtype=float), numpy.asarray(ny, dtype=float)
        nw = None if nw is None else numpy.asarray(nw, dtype=float)
    except Exception as e:
        bad("raises", "%s: %s on %r" % (type(e).__name__, e, case))
        return None
    if not (numpy.array_equal(numpy.asarray(y), y0) and (X is None or numpy.array_equal(numpy.asarray(X), X0))
            and (w is None or numpy.array_equal(numpy.asarray(w), w0))):
        bad("input modified", repr(case))
    w = None if w is None else w0
    exp_rows = n if same else nrow
    if nx.shape != (exp_rows, ncol + past) or ny.shape != (exp_rows, delay2 - 1):
        bad("shape", "X %r y %r expected rows %d, cols %d/%d" % (nx.shape, ny.shape, exp_rows,
                                                                  ncol + past, delay2 - 1))
        return None
    first = exp_rows - nrow
    if same:
        if first and not (numpy.isnan(nx[:first]).all() and numpy.isnan(ny[:first]).all()):
            bad("padding", "first %d rows must be NaN" % first)
        if numpy.isnan(nx[first:]).any() or numpy.isnan(ny[first:]).any():
            bad("padding", "NaN in the body")
    bx, by = nx[first:], ny[first:]
    for r in range(nrow):
        lags = bx[r, ncol:]
        tg = by[r]
        newest = lags.max() if len(lags) else None
        if len(lags) > 1 and not numpy.array_equal(numpy.diff(lags), numpy.ones(len(lags) - 1)):
            bad("lags not consecutive", "row %d lags %r" % (r, lags.tolist()))
        if not (lags.max() < tg.min()):
            bad("look-ahead", "row %d lags %r targets %r" % (r, lags.tolist(), tg.tolist()))
        if tg[0] != newest + 1:
            bad("first target not delay1 after newest lag", "row %d lags %r targets %r" % (r, lags.tolist(), tg.tolist()))
        if len(tg) > 1 and not numpy.array_equal(numpy.diff(tg), numpy.ones(len(tg) - 1)):
            bad("targets not consecutive", "row %d targets %r" % (r, tg.tolist()))
        if lags[-1] != newest:
            # statement does not fix the column order; only record
            pass
        if lags.min() != r or lags.min() < 0 or tg.max() > n - 1:
            bad("row order", "row %d lags %r targets %r (n=%d)" % (r, lags.tolist(), tg.tolist(), n))
        for c in range(ncol):
            if bx[r, c] != 1000 + 100 * c + newest:
                bad("exogenous misaligned", "row %d col %d value %r newest lag %r" % (r, c, bx[r, c], newest))
        if w is not None and not same:
            if nw is None or len(nw) != nrow or nw[r] != 2000 + newest:
                bad("weights misaligned", "row %d weights %r newest lag %r" % (
                    r, None if nw is None else nw.tolist(), newest))
    if w is None and nw is not None:
        bad("weights", "weights invented")
    if w is not None and same and (nw is None or len(nw) != n):
        bad("weights", "same_rows weights length")
    return {"X": nx[:3].tolist(), "y": ny[:3].tolist()}




UNITS = (1e-6, 1e-20, 1e-30, 2.0 ** -200, 1e-150, 1e6, 1e20, 2.0 ** 200, 1e150)


def _mape(case):
    import numpy
    from mlinsights.timeseries.metrics import ts_mape

    y = numpy.array(case["y"], dtype=numpy.float64)
    n = len(y)
    viol = []
    cnt = 0
    nonconst = len(set(case["y"])) > 1

    def bad(kind, msg):
        viol.append({"sig": "ts_mape|%s" % kind, "msg": msg})

    from checks.catalog import layouts
    weights = [None, numpy.arange(1, n + 1, dtype=numpy.float64)]
    for p in itertools.product((0.0, 1.0, 2.0, float("nan")), repeat=n):
        pred = numpy.array(p, dtype=numpy.float64)
        for w in weights:
            cnt += 1
            try:
                v = ts_mape(y, pred, sample_weight=w)
            except Exception as e:
                bad("raises %s" % type(e).__name__, "%s y=%r pred=%r w=%s" % (e, case["y"], p, w is not None))
                continue
            if n <= 4:
                for (ln, yl), (_, pl) in zip(layouts(y)[1:], layouts(pred)[1:]):
                    try:
                        vl = ts_mape(yl, pl, sample_weight=w)
                        if repr(vl) != repr(v):
                            bad("value depends on the memory layout", "y=%r pred=%r layout %s: %r vs %r" % (case["y"], p, ln, vl, v))
                    except Exception as e:
                        bad("raises %s on a non-contiguous input" % type(e).__name__, "%s y=%r pred=%r layout %s" % (e, case["y"], p, ln))
            try:
                f = float(v)
            except Exception:
                continue  # masked: ratio undefined (every term masked)
            if f < 0:
                bad("negative", "y=%r pred=%r -> %r" % (case["y"], p, v))
            # the metric is a ratio of two sums in the unit of the series: the same series and forecast in another unit
            # (micro-units, 1e-20, 2^-200 ... 1e150) give the same value
            if w is None and n <= 4 and nonconst and numpy.isfinite(f):
                for unit in UNITS:
                    cnt += 1
                    try:
                        fu = float(ts_mape(y * unit, pred * unit))
                    except Exception as e:
                        bad("raises %s" % type(e).__name__, "%s y=%r pred=%r in unit %r" % (e, case["y"], p, unit))
                        continue
                    if not abs(fu - f) <= 1e-9 * max(1.0, abs(f)):
                        bad("value depends on the unit of the series", "y=%r pred=%r: %r in unit 1, %r in unit %r" % (case["y"], p, f, fu, unit))
            if w is None and not numpy.isnan(pred).any() and n >= 2:
                den = numpy.abs(numpy.diff(y)).sum()
                num = numpy.abs(pred[1:] - y[1:]).sum()
                if den > 0 and abs(f - num / den) > 1e-12:
                    bad("formula", "y=%r pred=%r -> %r expected %r" % (case["y"], p, v, num / den))
    # naive previous-value forecast
    if n >= 2:
        for first in (float("nan"), y[0]):
            pred = numpy.concatenate([[first], y[:-1]])
            for w in weights:
                cnt += 1
                idx = [t for t in range(1, n) if not (numpy.isnan(pred[t]) or numpy.isnan(pred[t - 1]))]
                den = sum(abs(y[t] - y[t - 1]) for t in idx)
                if den == 0:
                    continue  # 0/0: outside the metric's domain
                try:
                    v = float(ts_mape(y, pred, sample_weight=w))
                except Exception as e:
                    bad("naive raises", "%s y=%r" % (e, case["y"]))
                    continue
                if abs(v - 1) > 1e-12:
                    bad("naive forecast != 1", "y=%r pred=%r -> %r" % (case["y"], pred.tolist(), v))
    # naive forecast with one missing forecast at every position (leading, interior, trailing) and with two of them
    if n >= 3:
        naive = numpy.concatenate([[y[0]], y[:-1]])
        holes = [(k,) for k in range(n)] + [(k, k2) for k in range(n) for k2 in range(k + 2, n)]
        for hole in holes:
            pred = naive.copy()
            pred[list(hole)] = numpy.nan
            idx = [t for t in range(1, n) if not (numpy.isnan(pred[t]) or numpy.isnan(pred[t - 1]))]
            den = sum(abs(y[t] - y[t - 1]) for t in idx)
            if den == 0:
                continue
            cnt += 1
            try:
                v = float(ts_mape(y, pred))
            except Exception as e:
                bad("naive raises", "%s y=%r pred=%r" % (e, case["y"], pred.tolist()))
                continue
            if abs(v - 1) > 1e-12:
                bad("naive forecast != 1", "y=%r pred=%r (missing forecasts at %r) -> %r" % (case["y"], pred.tolist(), list(hole), v))
    # multi-horizon tables (n rows, h columns: what build_ts_X_y returns as targets for delay2 >= 3): the previous value of a cell is
    # the cell one ROW above
    if n >= 2:
        for h in (2, 3):
            Y = numpy.column_stack([numpy.roll(y, -c) * (c + 1.0) + c for c in range(h)])
            den = numpy.abs(Y[1:] - Y[:-1]).sum()
            for first in (float("nan"), None):
                pred = numpy.vstack([numpy.full((1, h), numpy.nan) if first is not None else Y[:1], Y[:-1]])
                idx = [t for t in range(1, n) if not (numpy.isnan(pred[t]).any() or numpy.isnan(pred[t - 1]).any())]
                den2 = sum(numpy.abs(Y[t] - Y[t - 1]).sum() for t in idx)
                if den2 == 0:
                    continue
                cnt += 1
                try:
                    v = float(ts_mape(Y, pred))
                except Exception as e:
                    bad("naive raises", "%s y=%r horizons=%d" % (e, case["y"], h))
                    continue
                if abs(v - 1) > 1e-12:
                    bad("naive forecast != 1", "multi-horizon table %r pred=%r -> %r" % (Y.tolist(), pred.tolist(), v))
            if den > 0:
                P2 = Y[::-1].copy()
                try:
                    v = float(ts_mape(Y, P2))
                    exp = numpy.abs(P2[1:] - Y[1:]).sum() / den
                    cnt += 1
                    if v < 0 or abs(v - exp) > 1e-12 * max(1.0, exp):
                        bad("formula", "multi-horizon table %r pred=%r -> %r expected %r" % (Y.tolist(), P2.tolist(), v, exp))
                except Exception as e:
                    bad("raises %s" % type(e).__name__, "%s multi-horizon y=%r" % (e, case["y"]))
    return {"viol": viol, "nontrivial": nonconst, "transitions": cnt, "outcome": ("mape", n)}


def copy_unfitted(m):
    import copy
    return copy.deepcopy(m)


def _regressor(case):
    """No look-ahead observed end to end: the prediction made for time t by
    ARTimeSeriesRegressor must not change when y[t'] (t' >= t) changes at predict time."""
    import numpy
    from mlinsights.timeseries.ar import ARTimeSeriesRegressor
    from mlinsights.timeseries.dummies import DummyTimeSeriesRegressor
    from sklearn.linear_model import LinearRegression

    n, past = case["n"], case["past"]
    viol = []
    y = numpy.array([(t * t * 7 + 3 * t) % 11 for t in range(n)], dtype=numpy.float64)
    X = numpy.array([[1000.0 + t] for t in range(n)])
    try:
        if case["est"] == "dummy":
            m = DummyTimeSeriesRegressor(past=past)
        else:
            m = ARTimeSeriesRegressor("dummy", past=past)
            m.estimator = LinearRegression()
            # LinearRegression.predict takes only X: wrap
            class _LR(LinearRegression):
                def predict(self, X, y=None):
                    ok = ~numpy.isnan(X).any(axis=1)
                    out = numpy.full((X.shape[0],), numpy.nan)
                    if ok.any():
                        out[ok] = LinearRegression.predict(self, X[ok]).ravel()
                    return out

                def fit(self, X, y, sample_weight=None):
                    ok = ~(numpy.isnan(X).any(axis=1) | numpy.isnan(y).any(axis=1))
                    return LinearRegression.fit(self, X[ok], y[ok].ravel())
            m.estimator = _LR()
        m0 = copy_unfitted(m)
        m.fit(X, y)
        base = numpy.asarray(m.predict(X, y), dtype=float).ravel()
    except Exception as e:
        return {"viol": [{"sig": "ARTimeSeriesRegressor|raises|%s" % case["est"],
                          "msg": "%s: %s %r" % (type(e).__name__, e, case)}], "nontrivial": True}
    cnt = 0
    if len(base) != n:
        viol.append({"sig": "ARTimeSeriesRegressor|length", "msg": "%d predictions for %d rows" % (len(base), n)})
        return {"viol": viol}
    # the same series and exogenous table behind other memory layouts: same model, same predictions
    from checks.catalog import layouts
    import copy
    for (ln, yl), (lxn, Xl) in zip(layouts(y)[1:], [l for l in layouts(X) if l[0] != "transposed window"][1:]):
        try:
            m2 = copy.deepcopy(m0)
            m2.fit(Xl, yl)
            pl = numpy.asarray(m2.predict(Xl, yl), dtype=float).ravel()
            cnt += 1
            if pl.shape != base.shape or not numpy.array_equal(pl, base, equal_nan=True):
                viol.append({"sig": "ARTimeSeriesRegressor|prediction depends on the memory layout of the series|%s" % case["est"],
                             "msg": "layout %s: %r vs %r" % (ln, pl.tolist(), base.tolist())})
                break
        except Exception as e:
            viol.append({"sig": "ARTimeSeriesRegressor|raises on a non-contiguous series|%s" % case["est"],
                         "msg": "%s: %s layout %s %r" % (type(e).__name__, e, ln, case)})
            break
    for t in range(n):
        y2 = y.copy()
        y2[t:] += 100.0
        X2 = X.copy()
        X2[t:] += 5000.0
        p2 = numpy.asarray(m.predict(X2, y2), dtype=float).ravel()
        cnt += 1
        # prediction for time index j (row j of the same_rows table) must be unchanged for j <= t
        a, b = base[:t + 1], p2[:t + 1]
        same = (numpy.isnan(a) & numpy.isnan(b)) | (a == b)
        if not same.all():
            viol.append({"sig": "ARTimeSeriesRegressor|prediction depends on the future|%s" % case["est"],
                         "msg": "changing y[%d:] changed predictions %r -> %r" % (t, a.tolist(), b.tolist())})
            break
    return {"viol": viol, "nontrivial": True, "transitions": cnt, "outcome": ("reg", n, past)}


def run_case(case):
    if case["kind"] == "frame":
        return _frame(case)
    if case["kind"] == "mape":
        return _mape(case)
    return _regressor(case)
