"""C12 — tree utilities faithful to the tree's decision function (input explorer).

digitize2tree: the construction reads `bins` through len(bins) and copies thresholds; digitize and
the tree only compare the order of x and the edges. bins=(0,2,..,2(L-1)) with x in {-1,0,1,..,2L-1}
therefore covers every behaviour class for length L (order-isomorphism); non-uniform float32-exact
edges are run in addition.
Fitted trees: every target vector over a small alphabet on a grid, every depth; queries = one point in
every cell of the threshold arrangement (on thresholds, between, beyond).
"""
import itertools

PROPERTY = "C12"
RULE = ("digitize: every length L in the bound, both directions, every x on/between/beyond the edges; "
        "trees: every target vector over the alphabet on the grid x depth x tree kind, every cell of the "
        "threshold arrangement as query. non-trivial = tree has >= 1 split")
ASSUMPTIONS = ["x and edges are float32-representable (scikit-learn's predict casts X to float32)",
               "numpy.digitize and sklearn's Tree.apply are the references"]


def bounds(tier):
    return {"L": 64 if tier == "quick" else 600, "grid": "3x3", "targets": "{0,1}^9" if tier == "quick"
            else "{0,1}^9 regress + {0,1,2}^9/sym classif + 2x2x2 {0,1,2}^8"}


def cases(tier, seed):
    L = bounds(tier)["L"]
    for n in range(1, L + 1):
        yield {"kind": "digitize", "L": n}
    for n in range(1, 13):
        yield {"kind": "digitize_nonuniform", "L": n}
    # fitted trees, chunks of target vectors
    vecs = list(itertools.product((0, 1), repeat=9))
    for i in range(0, len(vecs), 16):
        yield {"kind": "trees", "grid": [3, 3], "ys": [list(v) for v in vecs[i:i + 16]],
               "models": ["reg", "clf"] if tier == "quick" else ["reg", "clf", "extra"]}
        if (i // 16) % 4 == seed % 4 or tier == "thorough":
            # same targets on the grid {-3,-1,1}^2: split thresholds are -2.0 and 0.0 (-2 is TREE_UNDEFINED, 0 a zero)
            yield {"kind": "trees", "grid": [3, 3], "scale": 2.0, "shift": -3.0, "ys": [list(v) for v in vecs[i:i + 16]],
                   "models": ["reg", "clf"]}
    if tier == "thorough":
        vecs = [v for v in itertools.product((0, 1, 2), repeat=9) if 2 in v and v[0] == 0]
        for i in range(0, len(vecs), 64):
            yield {"kind": "trees", "grid": [3, 3], "ys": [list(v) for v in vecs[i:i + 64]], "models": ["clf", "reg"]}
        vecs = list(itertools.product((0, 1, 2), repeat=8))
        for i in range(0, len(vecs), 64):
            yield {"kind": "trees", "grid": [2, 2, 2], "ys": [list(v) for v in vecs[i:i + 64]], "models": ["reg", "extra"]}


def _digitize(case):
    import numpy
    from mlinsights.mltree import digitize2tree

    L = case["L"]
    viol = []
    cnt = 0
    if case["kind"] == "digitize":
        edges = [numpy.arange(0, 2 * L, 2, dtype=numpy.float64)]
        xs = numpy.arange(-1, 2 * L + 1, dtype=numpy.float64)
    else:
        # float32-exact non-uniform edges, negative and fractional
        base = numpy.array([-8.5, -3.25, -3.0, -0.5, 0.0, 0.125, 1.0, 1.5, 4.0, 16.0, 16.5, 1024.0])
        edges = [base[:L], base[-L:], base[::2][:max(1, L // 2)]]
        # edges float32 cannot represent (tenths, thirds): the queries below are the float32 neighbours of each edge, which lie strictly
        # between the edge and its float32 rounding
        edges += [0.1 * numpy.arange(1, L + 1), numpy.arange(-L, L + 1, 2)[:L] / 3.0]
        xs = None
    # container / dtype alphabet of `bins` (the statement is about the values of the edges): every NumPy real dtype able to
    # hold the edges, a list, a tuple, and non-contiguous views; plus integer edges spanning more than half the dtype's range
    variants = [(asc, "float64") for asc in edges]
    if case["kind"] == "digitize" and L <= 24:
        from checks.catalog import layouts
        asc = edges[0]
        for dt in ("float32", "float16", "int64", "int32", "int16", "int8", "uint8", "uint16", "uint32", "uint64"):
            if asc.max() <= (numpy.iinfo(dt).max if dt[0] in "iu" else 2048):
                variants.append((asc.astype(dt), dt))
        variants.append((asc.tolist(), "list"))
        variants.append((tuple(asc.tolist()), "tuple"))
        for nm, v in layouts(asc)[1:]:
            variants.append((v, "float64, " + nm))
        if 2 <= L <= 8:
            for dt in ("int8", "int16", "int32", "int64"):
                ii = numpy.iinfo(dt)
                wide = numpy.unique(numpy.linspace(ii.min + 1, ii.max - 1, L).astype(dt)) if dt != "int64" else \
                    numpy.unique(numpy.array([-(2 ** 53), -5, 0, 7, 2 ** 40, 2 ** 53][:L], dtype=dt))
                variants.append((wide, dt + " wide span"))
    for asc, vname in variants:
        for direction in ("inc", "dec"):
            if isinstance(asc, (list, tuple)):
                bins = asc if direction == "inc" else type(asc)(asc[::-1])
            elif vname.startswith("float64, "):
                bins = asc if direction == "inc" else asc[::-1]
            else:
                bins = asc if direction == "inc" else asc[::-1].copy()
            asc_a = numpy.asarray(asc)
            if vname != "float64":
                direction = "%s,bins %s" % (direction, vname.split(" ")[0] if "wide" not in vname else vname)
            if len(bins) == 1 and direction.startswith("dec"):
                continue
            if xs is None or "wide" in vname:
                af = asc_a.astype(numpy.float64)
                mids = (af[:-1] + af[1:]) / 2 if len(af) > 1 else numpy.array([])
                x = numpy.concatenate([af, mids, [af[0] - 1, af[-1] + 1]])
                x = x.astype(numpy.float32).astype(numpy.float64)
            else:
                x = xs
            # NaN queries: numpy.digitize places NaN after every edge of increasing bins / before every edge of decreasing bins
            # (infinite queries are refused by scikit-learn's own input validation: outside the domain)
            x = numpy.concatenate([x, [numpy.nan]])
            bins0 = numpy.array(bins, copy=True)
            sig = "digitize2tree|%%s|%s" % direction
            try:
                tree = digitize2tree(bins, right=True)
                pred = tree.predict(x.reshape(-1, 1))
            except Exception as e:
                viol.append({"sig": sig % ("raises " + type(e).__name__), "msg": "%s L=%d" % (e, len(bins))})
                continue
            exp = numpy.digitize(x, numpy.asarray(bins0, dtype=numpy.float64), right=True)
            cnt += len(x)
            if not numpy.array_equal(numpy.asarray(bins), bins0):
                viol.append({"sig": sig % "bins modified", "msg": "L=%d" % len(bins)})
            if pred.shape != exp.shape or not numpy.array_equal(pred, exp):
                k = int(numpy.argmax(pred != exp)) if pred.shape == exp.shape else -1
                viol.append({"sig": sig % "differs from numpy.digitize",
                             "msg": "bins=%r x=%r tree=%r numpy=%r" % (list(numpy.asarray(bins).tolist())[:8], x[k], pred[k] if k >= 0 else pred.shape, exp[k])})
            # single rows as well (batch independence of the built tree)
            if len(bins) <= 8:
                for v in x:
                    if tree.predict(numpy.array([[v]]))[0] != numpy.digitize(numpy.array([v]), numpy.asarray(bins0, dtype=numpy.float64), right=True)[0]:
                        viol.append({"sig": sig % "differs from numpy.digitize", "msg": "single x=%r bins=%r" % (v, bins0.tolist())})
                        break
    return {"viol": viol, "nontrivial": L >= 2, "transitions": cnt, "outcome": ("dig", L)}


def _queries(tree, d, lo=-1.0, hi=3.0):
    import numpy
    axes = []
    for f in range(d):
        th = sorted(set(float(t) for t, ff in zip(tree.threshold, tree.feature) if ff == f))
        pts = set(th)
        full = [lo] + th + [hi]
        for a, b in zip(full[:-1], full[1:]):
            pts.add((a + b) / 2)
        pts.add(lo)
        pts.add(hi)
        axes.append(sorted(pts))
    return numpy.array(list(itertools.product(*axes)), dtype=numpy.float64)


def _trees(case):
    import numpy
    from sklearn.tree import DecisionTreeRegressor, DecisionTreeClassifier, ExtraTreeRegressor
    from mlinsights.mltree import predict_leaves, tree_leave_index, tree_node_range

    grid = case["grid"]
    d = len(grid)
    X = numpy.array(list(itertools.product(*[range(g) for g in grid])), dtype=numpy.float64)
    X = X * case.get("scale", 1.0) + case.get("shift", 0.0)
    viol = []
    cnt = 0
    ntriv = 0
    outcomes = set()
    seen = set()

    def bad(kind, msg):
        viol.append({"sig": "mltree|%s" % kind, "msg": msg})

    for ys in case["ys"]:
        y = numpy.array(ys, dtype=numpy.float64)
        for mk in case["models"]:
            # depth-first growth (max_depth) and best-first growth (max_leaf_nodes: node numbers then follow the order of the
            # best splits, not the position in the tree)
            for depth in (1, 2, 3, None, "leaves3", "leaves4", "leaves6"):
                kw = {"max_depth": depth} if not isinstance(depth, str) else {"max_leaf_nodes": int(depth[6:])}
                if mk == "reg":
                    model = DecisionTreeRegressor(random_state=0, **kw)
                elif mk == "clf":
                    model = DecisionTreeClassifier(random_state=0, **kw)
                else:
                    model = ExtraTreeRegressor(random_state=7 if isinstance(depth, str) or depth is None else depth, **kw)
                model.fit(X, y.astype(int) if mk == "clf" else y)
                t = model.tree_
                key = (t.node_count, tuple(t.feature.tolist()), tuple(t.threshold.tolist()))
                if key in seen:
                    continue
                seen.add(key)
                outcomes.add(key[:2])
                desc = "y=%r model=%s depth=%r" % (ys, mk, depth)
                Q = _queries(t, d, lo=float(X.min()) - 1.0, hi=float(X.max()) + 1.0)
                # scikit-learn compares float32(x) with the float64 threshold: queries are made float32-exact, so the box
                # membership below is computed on exactly the values the tree sees (random extra-tree thresholds are not
                # float32-representable, so "on the threshold" only exists for the midpoint thresholds of the grid)
                Q = Q.astype(numpy.float32).astype(numpy.float64)
                ref = model.apply(Q)
                cnt += len(Q)
                if t.node_count > 1:
                    ntriv += 1
                try:
                    pl = predict_leaves(model, Q)
                    if not numpy.array_equal(pl, ref):
                        bad("predict_leaves != apply", desc)
                    pl1 = numpy.array([predict_leaves(model, Q[i:i + 1])[0] for i in range(min(len(Q), 12))])
                    if not numpy.array_equal(pl1, ref[:len(pl1)]):
                        bad("predict_leaves != apply", desc + " (single rows)")
                except Exception as e:
                    bad("predict_leaves raises %s" % type(e).__name__, "%s %s" % (e, desc))
                try:
                    leaves = list(tree_leave_index(model))
                except Exception as e:
                    bad("tree_leave_index raises %s" % type(e).__name__, "%s %s" % (e, desc))
                    continue
                has_child = set()
                for i in range(t.node_count):
                    for c in (t.children_left[i], t.children_right[i]):
                        if c >= 0:
                            has_child.add(i)
                exp_leaves = sorted(set(range(t.node_count)) - has_child)
                if sorted(leaves) != exp_leaves or len(leaves) != len(set(leaves)):
                    bad("tree_leave_index", "%r != %r %s" % (leaves, exp_leaves, desc))
                if set(ref.tolist()) != set(exp_leaves):
                    raise AssertionError("harness: arrangement does not reach every leaf")
                for leaf in exp_leaves:
                    try:
                        box = numpy.asarray(tree_node_range(model, leaf), dtype=float)
                    except Exception as e:
                        bad("tree_node_range raises %s|%s" % (type(e).__name__, "root-only tree" if t.node_count == 1 else "tree with splits"),
                            "%s leaf=%d %s" % (e, leaf, desc))
                        continue
                    if box.ndim != 2 or box.shape[1] != 2 or box.shape[0] > d:
                        bad("tree_node_range shape", "%r %s" % (box.shape, desc))
                        continue
                    inbox = numpy.ones(len(Q), dtype=bool)
                    for f in range(box.shape[0]):
                        lo, hi = box[f]
                        if not numpy.isnan(lo):
                            inbox &= Q[:, f] > lo
                        if not numpy.isnan(hi):
                            inbox &= Q[:, f] <= hi
                    routed = ref == leaf
                    if not numpy.array_equal(inbox, routed):
                        k = int(numpy.argmax(inbox != routed))
                        bad("tree_node_range box != routed points",
                            "leaf %d box %r query %r in box=%s routed=%s %s" % (
                                leaf, box.tolist(), Q[k].tolist(), inbox[k], routed[k], desc))
    return {"viol": viol, "nontrivial": ntriv > 0, "states": len(seen), "transitions": cnt,
            "outcome": digest_outcomes(outcomes), "counters": {"distinct_trees": len(seen), "trees_with_splits": ntriv}}


def digest_outcomes(o):
    import hashlib
    return hashlib.sha1(repr(sorted(o)).encode()).hexdigest()[:12]


def run_case(case):
    if case["kind"].startswith("digitize"):
        return _digitize(case)
    return _trees(case)
