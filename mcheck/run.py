"""./check <ID> quick|thorough  |  ./check <ID> --replay <path>"""
import os
import sys


def main(argv):
    if len(argv) < 2:
        print(__doc__)
        return 2
    pid = argv[0].upper()
    seed = int(os.environ.get("VERIF_SEED", "0") or 0)
    from . import core
    if argv[1] == "--replay":
        return core.main_replay(pid, argv[2], confirm="--noconfirm" not in argv)
    tier = argv[1]
    if tier not in ("quick", "thorough"):
        print(__doc__)
        return 2
    os.environ["VERIF_TIER"] = tier
    return core.main_check(pid, tier, seed)


if __name__ == "__main__":
    sys.exit(main(sys.argv[1:]))
