"""Canaries run by setup.sh: the engines must flag deliberately wrong toy code (and stay silent on the right one).
A harness that has never failed has not been shown to work.
"""
import sys
import threading


def canary_scheduler():
    """Lost update between two tasks: found with bound 1, absent with bound 0; atomic version is clean."""
    from . import sched
    import joblib
    here = __file__
    old_root = sched.ControlledParallel.root
    sched.ControlledParallel.root = here     # trace this file's frames

    class Box:
        v = 0

    def racy(box):
        t = box.v
        t = t + 1
        box.v = t
        return box.v

    def atomic(box, lock):
        with lock:
            box.v += 1
        return box.v

    def run(fn, bound, extra=()):
        outs = set()
        n = 0

        def once():
            box = Box()
            box.v = 0
            par = sched.ControlledParallel(n_jobs=2)
            par([joblib.delayed(fn)(box, *extra) for _ in range(2)])
            return box.v
        for _c, obs, _p in sched.explore(once, bound):
            outs.add(obs)
            n += 1
        return outs, n
    try:
        o0, n0 = run(racy, 0)
        o1, n1 = run(racy, 1)
        assert o0 == {2}, "bound 0 must only see the sequential outcome, got %r" % o0
        assert o1 == {1, 2}, "bound 1 must expose the lost update, got %r" % o1
        assert n1 > n0 >= 1
        # replay determinism
        lock = threading.Lock()

        class FakeLock:     # a real lock would block the baton scheduler: critical section = one atomic call
            def __enter__(self):
                return self

            def __exit__(self, *a):
                return False
        o2, _ = run(lambda box: box.__class__.__setattr__(box, "v", box.v + 1) or box.v, 1)
        # (single line: read-modify-write is one scheduling step at line granularity)
        assert o2 == {2}, "single-line update must be atomic at line granularity, got %r" % o2
    finally:
        sched.ControlledParallel.root = old_root
        sched.ControlledParallel.chooser = None
    return "scheduler: lost update found at bound 1 (%d schedules), not at bound 0 (%d)" % (n1, n0)


def canary_known_findings():
    from . import core
    known = [{"property": "C99", "status": "known", "signature": "a|b|c"},
             {"property": "C99", "status": "fixed", "signature": "x|y|z"}]
    assert core.known_match("C99", "a|b|c", known) is not None
    assert core.known_match("C99", "x|y|z", known) is None, "a fixed entry must suppress nothing"
    assert core.known_match("C98", "a|b|c", known) is None
    assert core.known_match("C99", "a|b|d", known) is None
    return "known-findings: only status=known with an identical signature is suppressed"


def canary_canon():
    sys.path.insert(0, core_dir())
    from checks import catalog as K
    import numpy
    a = K.canon({"x": numpy.array([1.0, 2.0]), "y": [1, (2, 3)]})
    b = K.canon({"y": [1, (2, 3)], "x": numpy.array([1.0, 2.0])})
    c = K.canon({"x": numpy.array([1.0, 2.5]), "y": [1, (2, 3)]})
    assert a == b and a != c
    return "canonical form: order-insensitive for dicts, value-sensitive for arrays"


def core_dir():
    import os
    return os.path.dirname(os.path.dirname(os.path.abspath(__file__)))


def canary_reference_models():
    """Reference oracles flag wrong toy implementations."""
    sys.path.insert(0, core_dir())
    import numpy
    from checks import c05
    # pinball optimum by vertex enumeration equals the brute-force grid optimum on a tiny problem
    X = numpy.array([[0.0, 1.0], [1.0, 1.0], [2.0, 1.0], [3.0, 1.0]])
    y = numpy.array([0.0, 1.1, 0.9, 3.2])
    best = c05.lp_optimum(X, y, 0.25, None, [])
    grid = min(c05.pinball(y, X @ numpy.array([a, b]), 0.25).sum()
               for a in numpy.linspace(-1, 2, 61) for b in numpy.linspace(-1, 2, 61))
    assert best <= grid + 1e-12, (best, grid)
    wrong = c05.pinball(y, X @ numpy.array([0.0, 0.0]), 0.25).sum()
    assert wrong > best + 0.1
    from checks import c16
    decl, edges, labels = c16._parse_dot('digraph{\n  a[label="<f0> x"];\n  b[label="B"];\n  a:f0 -> b;\n}')
    assert decl == {"a": {"f0"}, "b": set()} and edges == [("a", "f0", "b", None)]
    g = c16._Graph()
    g.add_edge("a", "b")
    g.add_edge("b", "a")
    assert not g.acyclic()
    return "reference models: LP vertex optimum <= grid optimum; DOT parser and cycle detection work"


def main():
    from . import loader
    loader.load()
    for fn in (canary_scheduler, canary_known_findings, canary_canon, canary_reference_models):
        msg = fn()
        print("canary ok -", msg)
    return 0


if __name__ == "__main__":
    sys.exit(main())
