"""Stateless, preemption-bounded schedule explorer (CHESS style) for code that uses
joblib.Parallel(prefer="threads").

ControlledParallel is installed through loader.ParallelSeam. It runs every task body in a real thread but lets
exactly one thread run between scheduling points. Scheduling points: task start, task end, and every Python 'line'
event in a frame whose file lies under the traced root (/repo/mlinsights). Calls into other packages (scikit-learn,
NumPy) are atomic steps.

explore(run_once, bound) enumerates every schedule with at most `bound` preemptions:
    run_once(chooser) must execute the system under test once with `chooser` installed and return an observation.
"""
import os
import sys
import threading


class ReplayDivergence(RuntimeError):
    pass


class Deadlock(RuntimeError):
    pass


class Chooser:
    """Replays a prefix of choices, then always picks choice 0 (keep running the current thread)."""

    def __init__(self, prefix):
        self.prefix = list(prefix)
        self.points = []     # (enabled tuple, chosen index, running_still_enabled)

    def choose(self, enabled, running_enabled):
        i = len(self.points)
        if i < len(self.prefix):
            c = self.prefix[i]
            if c >= len(enabled):
                raise ReplayDivergence("choice %d out of range at point %d (enabled=%r)" % (c, i, enabled))
        else:
            c = 0
        self.points.append((tuple(enabled), c, running_enabled))
        return enabled[c]


class _Task:
    def __init__(self, tid, fn, args, kwargs):
        self.tid = tid
        self.fn, self.args, self.kwargs = fn, args, kwargs
        self.sem = threading.Semaphore(0)
        self.done = False
        self.result = None
        self.error = None
        self.thread = None


class ControlledParallel:
    """Drop-in for joblib.Parallel(n_jobs=..., prefer='threads')."""
    chooser = None          # set by the explorer for the duration of one execution
    root = "/repo/mlinsights"
    stats = {"parallel_calls": 0, "points": 0}

    def __init__(self, n_jobs=None, **kwargs):
        self.n_jobs = n_jobs

    def __call__(self, iterable):
        tasks = [_Task(i, f, a, k) for i, (f, a, k) in enumerate(iterable)]
        W = self.n_jobs
        ch = ControlledParallel.chooser
        if ch is None or W is None or W == 1 or len(tasks) <= 1:
            return [t.fn(*t.args, **t.kwargs) for t in tasks]
        if W < 0:
            W = len(tasks)
        ControlledParallel.stats["parallel_calls"] += 1
        ctl = threading.Semaphore(0)
        root = ControlledParallel.root

        def yield_point(task):
            ctl.release()
            task.sem.acquire()

        def make_tracer(task):
            def local(frame, event, arg):
                if event == "line":
                    yield_point(task)
                return local

            def tracer(frame, event, arg):
                if event == "call" and frame.f_code.co_filename.startswith(root):
                    return local
                return None
            return tracer

        def body(task):
            task.sem.acquire()          # wait for first dispatch
            sys.settrace(make_tracer(task))
            try:
                task.result = task.fn(*task.args, **task.kwargs)
            except BaseException as e:  # noqa
                task.error = e
            finally:
                sys.settrace(None)
                task.done = True
                ctl.release()

        for t in tasks:
            t.thread = threading.Thread(target=body, args=(t,), daemon=True)
            t.thread.start()
        active = list(tasks[:W])       # dispatched to a virtual worker
        pending = list(tasks[W:])
        running = None
        while True:
            # refill workers
            active = [t for t in active if not t.done]
            while len(active) < W and pending:
                active.append(pending.pop(0))
            if not active:
                break
            running_enabled = running is not None and not running.done and running in active
            order = ([running] if running_enabled else []) + sorted(
                (t for t in active if t is not running or not running_enabled), key=lambda t: t.tid)
            enabled = [t.tid for t in order]
            tid = ch.choose(enabled, running_enabled)
            ControlledParallel.stats["points"] += 1
            nxt = tasks[tid]
            running = nxt
            nxt.sem.release()
            if not ctl.acquire(timeout=120):
                raise Deadlock("task %d did not reach a scheduling point within 120 s" % tid)
        for t in tasks:
            t.thread.join(10)
        for t in tasks:
            if t.error is not None:
                raise t.error
        return [t.result for t in tasks]


def preemptions_before(points, i):
    n = 0
    for (enabled, c, running_enabled) in points[:i]:
        if running_enabled and c != 0:
            n += 1
    return n


def explore(run_once, bound, max_executions=None, part=(0, 1)):
    """Iterative context bounding: yields (choices, observation) for every schedule with <= bound preemptions.
    part=(k, K) explores the root execution (k == 0) and the first-level deviations whose running number is
    congruent to k modulo K together with everything below them: the K parts are a partition of the schedule tree."""
    stack = [[]]
    count = 0
    branch_no = 0
    while stack:
        prefix = stack.pop()
        ch = Chooser(prefix)
        ControlledParallel.chooser = ch
        try:
            obs = run_once()
        finally:
            ControlledParallel.chooser = None
        choices = [c for (_e, c, _r) in ch.points]
        count += 1
        if prefix or part[0] == 0:
            yield choices, obs, ch.points
        if max_executions is not None and count >= max_executions:
            return
        for i in range(len(prefix), len(ch.points)):
            enabled, c, running_enabled = ch.points[i]
            cost = preemptions_before(ch.points, i) + (1 if running_enabled else 0)
            if cost > bound:
                continue
            for alt in range(1, len(enabled)):
                if not prefix:
                    branch_no += 1
                    if branch_no % part[1] != part[0]:
                        continue
                stack.append(choices[:i] + [alt])


def install():
    from . import loader
    loader.load()
    import mlinsights.mlmodel  # noqa
    loader.rebind_parallel()
    loader.ParallelSeam.impl = ControlledParallel
    ControlledParallel.root = os.path.join(loader.REPO, "mlinsights")


def uninstall():
    from . import loader
    loader.ParallelSeam.impl = None
