"""Loader: import mlinsights from /repo's *current working tree*.

* Python sources come straight from REPO (sys.path[0]).
* The six Cython extensions are compiled (outside /repo and /verif) from the
  .pyx/.pxd files of the working tree into a content-addressed cache and are
  resolved by a sys.meta_path finder. A changed .pyx changes the hash.
* sklearn.utils._joblib (removed in sklearn >= 1.5?) is provided as a seam which
  exposes Parallel/delayed; the seam is also how the schedule explorer takes control.
"""
import fcntl
import hashlib
import importlib.abc
import importlib.machinery
import importlib.util
import os
import shutil
import subprocess
import sys
import tempfile
import types

REPO = os.environ.get("MLINSIGHTS_REPO", "/repo")
CACHE_ROOT = os.environ.get("MLINSIGHTS_VERIF_CACHE", "/var/tmp/mlinsights-verif-cache")
PYTHON = "/venv/bin/python"

for _v in ("OMP_NUM_THREADS", "OPENBLAS_NUM_THREADS", "MKL_NUM_THREADS"):
    os.environ.setdefault(_v, "1")
os.environ.setdefault("PYTHONDONTWRITEBYTECODE", "1")
os.environ.setdefault("MLINSIGHTS_VERIF", "1")
sys.dont_write_bytecode = True


class BuildError(RuntimeError):
    pass


def _ext_sources():
    out = []
    root = os.path.join(REPO, "mlinsights")
    for dp, _dn, fn in os.walk(root):
        for f in fn:
            if f.endswith((".pyx", ".pxd")):
                out.append(os.path.relpath(os.path.join(dp, f), REPO))
    return sorted(out)


def tree_hash():
    import numpy, sklearn, Cython  # noqa

    h = hashlib.sha256()
    h.update(("%s|%s|%s|%s" % (sys.version, numpy.__version__, sklearn.__version__,
                               Cython.__version__)).encode())
    for rel in _ext_sources():
        h.update(rel.encode())
        with open(os.path.join(REPO, rel), "rb") as f:
            h.update(f.read())
    return h.hexdigest()[:20]


_SETUP = r"""
import sys, numpy
from setuptools import setup, Extension
from Cython.Build import cythonize
mods = %r
exts = [Extension(m, [m.replace('.', '/') + '.pyx'], language='c++',
                  include_dirs=[numpy.get_include()],
                  define_macros=[('NPY_NO_DEPRECATED_API', 'NPY_1_7_API_VERSION')],
                  extra_compile_args=['-O2', '-w'])
        for m in mods]
setup(name='x', ext_modules=cythonize(exts, language_level=3, nthreads=0, quiet=True))
"""


def _build(dest):
    srcs = _ext_sources()
    tmp = tempfile.mkdtemp(prefix="mlins-build-", dir=os.environ.get("MLINSIGHTS_BUILD_TMP", "/var/tmp"))
    try:
        mods = []
        for rel in srcs:
            d = os.path.join(tmp, os.path.dirname(rel))
            os.makedirs(d, exist_ok=True)
            shutil.copy(os.path.join(REPO, rel), os.path.join(tmp, rel))
            # package stubs
            p = d
            while os.path.abspath(p) != os.path.abspath(tmp):
                ini = os.path.join(p, "__init__.py")
                if not os.path.exists(ini):
                    open(ini, "w").close()
                p = os.path.dirname(p)
            if rel.endswith(".pyx"):
                mods.append(rel[:-4].replace("/", "."))
        with open(os.path.join(tmp, "setup_x.py"), "w") as f:
            f.write(_SETUP % (mods,))
        env = dict(os.environ)
        env.pop("PYTHONPATH", None)
        r = subprocess.run([PYTHON, "setup_x.py", "build_ext", "--inplace", "-j", "8"],
                           cwd=tmp, env=env, stdout=subprocess.PIPE, stderr=subprocess.STDOUT,
                           text=True)
        if r.returncode != 0:
            raise BuildError("cython build failed:\n" + r.stdout[-6000:])
        stage = dest + ".part%d" % os.getpid()
        os.makedirs(stage, exist_ok=True)
        n = 0
        for dp, _dn, fn in os.walk(tmp):
            if os.path.relpath(dp, tmp).startswith("build"):
                continue
            for f in fn:
                if f.endswith(".so"):
                    shutil.copy(os.path.join(dp, f), os.path.join(stage, f))
                    n += 1
        if n != len(mods):
            raise BuildError("expected %d extension modules, got %d\n%s" % (len(mods), n, r.stdout[-3000:]))
        with open(os.path.join(stage, "MODULES"), "w") as f:
            f.write("\n".join(mods))
        os.rename(stage, dest)
    finally:
        shutil.rmtree(tmp, ignore_errors=True)


def ensure_built():
    """Returns the cache directory holding .so files for the current tree."""
    h = tree_hash()
    dest = os.path.join(CACHE_ROOT, h)
    if os.path.exists(os.path.join(dest, "MODULES")):
        return dest
    os.makedirs(CACHE_ROOT, exist_ok=True)
    with open(os.path.join(CACHE_ROOT, ".lock"), "w") as lk:
        fcntl.flock(lk, fcntl.LOCK_EX)
        if os.path.exists(os.path.join(dest, "MODULES")):
            return dest
        # evict: keep at most 2 other entries
        ents = [os.path.join(CACHE_ROOT, e) for e in os.listdir(CACHE_ROOT)
                if not e.startswith(".")]
        ents.sort(key=lambda p: os.path.getmtime(p))
        for p in ents[:-2]:
            shutil.rmtree(p, ignore_errors=True)
        _build(dest)
    return dest


class _ExtFinder(importlib.abc.MetaPathFinder):
    def __init__(self, cache_dir):
        self.cache_dir = cache_dir
        with open(os.path.join(cache_dir, "MODULES")) as f:
            self.mods = set(f.read().split())

    def find_spec(self, fullname, path=None, target=None):
        if fullname not in self.mods:
            return None
        base = fullname.rsplit(".", 1)[1]
        for f in os.listdir(self.cache_dir):
            if f.startswith(base + ".") and f.endswith(".so"):
                p = os.path.join(self.cache_dir, f)
                loader = importlib.machinery.ExtensionFileLoader(fullname, p)
                return importlib.util.spec_from_file_location(fullname, p, loader=loader)
        return None


class ParallelSeam:
    """Stand-in for sklearn.utils._joblib; default = real joblib."""
    impl = None  # set to a class to override Parallel


def _install_joblib_seam():
    import joblib

    mod = types.ModuleType("sklearn.utils._joblib")

    def Parallel(*a, **k):
        if ParallelSeam.impl is not None:
            return ParallelSeam.impl(*a, **k)
        return joblib.Parallel(*a, **k)

    mod.Parallel = Parallel
    mod.delayed = joblib.delayed
    mod.joblib = joblib
    mod.__version__ = joblib.__version__
    for name in ("Memory", "dump", "load", "hash", "cpu_count", "effective_n_jobs",
                 "parallel_backend", "register_parallel_backend"):
        if hasattr(joblib, name):
            setattr(mod, name, getattr(joblib, name))
    sys.modules["sklearn.utils._joblib"] = mod
    return Parallel


_loaded = None


def load(need_ext=True):
    """Make `import mlinsights...` resolve to REPO; returns the mlinsights module."""
    global _loaded
    if _loaded is not None:
        return _loaded
    if sys.path[0] != REPO:
        sys.path.insert(0, REPO)
    if need_ext:
        cache = ensure_built()
        sys.meta_path.insert(0, _ExtFinder(cache))
    try:
        import sklearn.utils._joblib  # noqa
        have = True
    except ImportError:
        have = False
    par = _install_joblib_seam() if not have else None
    import warnings
    warnings.filterwarnings("ignore")
    import mlinsights

    assert os.path.realpath(mlinsights.__file__).startswith(os.path.realpath(REPO) + os.sep), \
        "mlinsights imported from %s, not from %s" % (mlinsights.__file__, REPO)
    _loaded = mlinsights
    return mlinsights


def rebind_parallel():
    """After import of mlmodel: make sure the two Parallel call sites go through the seam
    even if the code later imports joblib directly."""
    import joblib
    import importlib

    def Parallel(*a, **k):
        if ParallelSeam.impl is not None:
            return ParallelSeam.impl(*a, **k)
        return joblib.Parallel(*a, **k)

    for name in ("mlinsights.mlmodel.piecewise_estimator", "mlinsights.mlmodel.interval_regressor"):
        m = importlib.import_module(name)
        if hasattr(m, "Parallel"):
            m.Parallel = Parallel


if __name__ == "__main__":
    import time
    t = time.time()
    d = ensure_built()
    print("cache:", d, "%.1fs" % (time.time() - t))
    load()
    import mlinsights.mlmodel, mlinsights.mltree, mlinsights.timeseries, mlinsights.sklapi  # noqa
    import mlinsights.helpers, mlinsights.metrics, mlinsights.plotting  # noqa
    print("import ok", mlinsights.__file__)
