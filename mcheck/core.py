"""Runner plumbing: case sharding over a process pool, evidence, replay files,
known-findings matching, fresh-process confirmation of violations.

A check module (checks/cNN.py) provides

  PROPERTY = "Cnn"
  RULE     = "<how cases are enumerated; what is non-trivial>"
  ASSUMPTIONS = [...]
  def cases(tier, seed) -> iterable of JSON-able case descriptors (dict)
  def run_case(case) -> dict with keys
        viol:   list of {sig, msg, ...}     (sig = call site | kind | condition class)
        nontrivial: bool
        states, transitions: ints (default 1, 1)
        outcome: hashable/str digest of what was observed (for distinct-outcome count)
  optional: def bounds(tier) -> dict describing the bound, def post(results, tier) -> list of extra viols
"""
import hashlib
import importlib
import json
import multiprocessing as mp
import os
import subprocess
import sys
import time
import traceback

VERIF = os.path.dirname(os.path.dirname(os.path.abspath(__file__)))
PYTHON = "/venv/bin/python"


def digest(obj):
    return hashlib.sha1(json.dumps(obj, sort_keys=True, default=str).encode()).hexdigest()[:16]


def load_known():
    p = os.path.join(VERIF, "known_findings.json")
    if not os.path.exists(p):
        return []
    with open(p) as f:
        return json.load(f)["findings"]


def known_match(pid, sig, known):
    for e in known:
        if e.get("property") == pid and e.get("status") == "known" and e.get("signature") == sig:
            return e
    return None


_MOD = None


def _init_worker(modname):
    global _MOD
    from . import loader
    loader.load()
    _MOD = importlib.import_module(modname)
    if hasattr(_MOD, "worker_init"):
        _MOD.worker_init()


def _run_chunk(chunk):
    out = []
    for idx, case in chunk:
        try:
            r = _MOD.run_case(case)
        except Exception as e:  # harness bug: must be loud, never a silent pass
            r = {"viol": [], "harness_error": "%s: %s\n%s" % (type(e).__name__, e, traceback.format_exc())}
        r["idx"] = idx
        out.append(r)
    return out


def _worker_main(modname, wid, tasks, results):
    # library code prints when a check flips a `verbose` parameter: keep it off the check's stdout (results travel
    # through the queue, never through stdout)
    try:
        dn = os.open(os.devnull, os.O_WRONLY)
        os.dup2(dn, 1)
        os.dup2(dn, 2)
    except OSError:
        pass
    try:
        _init_worker(modname)
    except Exception as e:
        results.put(("initfail", wid, "%s: %s\n%s" % (type(e).__name__, e, traceback.format_exc())))
        return
    while True:
        item = tasks.get()
        if item is None:
            return
        idx, case = item
        results.put(("start", wid, idx))
        out = _run_chunk([(idx, case)])[0]
        results.put(("done", wid, idx, out))


def run_cases(modname, cases, workers=None, chunk=None):
    """Runs every case on a pool of long-lived worker processes; a case that exceeds the per-case time limit
    (a hang inside compiled code cannot be interrupted) gets its worker killed and is reported as a violation
    of kind 'hangs'. Returns results in case order."""
    import queue as _q
    cases = list(cases)
    n = len(cases)
    workers = workers or int(os.environ.get("VERIF_WORKERS", "16"))
    workers = max(1, min(workers, n))
    mod = importlib.import_module(modname)
    limit = float(os.environ.get("VERIF_CASE_TIMEOUT", getattr(mod, "CASE_TIMEOUT", 900)))
    results = [None] * n
    ctx = mp.get_context("spawn")
    tasks = ctx.Queue()
    resq = ctx.Queue()
    # heavy cases first when the module provides a weight
    order = list(range(n))
    if hasattr(mod, "weight"):
        order.sort(key=lambda i: -mod.weight(cases[i]))
    for i in order:
        tasks.put((i, cases[i]))
    procs = {}
    running = {}

    def start(wid):
        p = ctx.Process(target=_worker_main, args=(modname, wid, tasks, resq), daemon=True)
        p.start()
        procs[wid] = p

    for w in range(workers):
        start(w)
    done = 0
    while done < n:
        try:
            msg = resq.get(timeout=1.0)
        except _q.Empty:
            msg = None
        now = time.time()
        if msg is not None:
            if msg[0] == "start":
                running[msg[1]] = (msg[2], now)
            elif msg[0] == "done":
                running.pop(msg[1], None)
                results[msg[2]] = msg[3]
                done += 1
            elif msg[0] == "initfail":
                for p in procs.values():
                    p.terminate()
                raise RuntimeError("worker initialisation failed: " + msg[2])
        for wid, (idx, t0) in list(running.items()):
            if now - t0 > limit:
                procs[wid].kill()
                procs[wid].join(5)
                running.pop(wid)
                sig = mod.hang_sig(cases[idx]) if hasattr(mod, "hang_sig") else "case hangs"
                results[idx] = {"idx": idx, "viol": [{"sig": sig, "hang": True,
                                                     "msg": "no answer within %.0f s (worker killed)" % limit}]}
                done += 1
                start(wid)
        for wid, p in list(procs.items()):
            if not p.is_alive() and wid in running:
                idx, t0 = running.pop(wid)
                sig = (mod.hang_sig(cases[idx]) if hasattr(mod, "hang_sig") else "case hangs").replace("hangs", "crashes the interpreter")
                results[idx] = {"idx": idx, "viol": [{"sig": sig, "hang": True,
                                                     "msg": "worker process died (exit code %r)" % p.exitcode}]}
                done += 1
                start(wid)
    for _ in procs:
        tasks.put(None)
    for p in procs.values():
        p.join(2)
        if p.is_alive():
            p.terminate()
    return cases, results


def confirm_in_fresh_process(pid, path, hang=False, limit=900):
    try:
        r = subprocess.run([PYTHON, "-W", "ignore", "-m", "mcheck.run", pid, "--replay", path, "--noconfirm"],
                           cwd=VERIF, stdout=subprocess.PIPE, stderr=subprocess.STDOUT, text=True, timeout=limit + 30)
    except subprocess.TimeoutExpired:
        return hang, "replay timed out"
    return r.returncode == 1 and "VIOLATION" in r.stdout, r.stdout


def main_check(pid, tier, seed):
    t0 = time.time()
    from . import loader
    modname = "checks.%s" % pid.lower()
    build_error = None
    try:
        loader.load()
        mod = importlib.import_module(modname)
    except loader.BuildError as e:
        build_error = str(e)
    if build_error is not None:
        os.makedirs(os.path.join(VERIF, "replays", pid), exist_ok=True)
        path = os.path.join(VERIF, "replays", pid, "build_error.json")
        with open(path, "w") as f:
            json.dump({"property": pid, "kind": "build", "output": build_error}, f, indent=1)
        print(build_error[-2000:])
        print("VIOLATION property=%s replay=%s" % (pid, path))
        write_evidence(pid, tier, seed, {"evaluations": 1, "distinct_nontrivial": 0, "states": 1,
                                        "transitions": 1, "traces_validated_against_impl": 0,
                                        "samples": ["compiled extension build failed"],
                                        "rule": "build", "exhaustive": False}, [], time.time() - t0, 1)
        return 1
    cases = list(mod.cases(tier, seed))
    cases, results = run_cases(modname, cases)
    known = load_known()
    harness_errors = [(c, r) for c, r in zip(cases, results) if r.get("harness_error")]
    if harness_errors:
        c, r = harness_errors[0]
        print("HARNESS-ERROR property=%s cases=%d first case=%s\n%s" % (
            pid, len(harness_errors), json.dumps(c, default=str)[:400], r["harness_error"]))
        return 2
    viols = []
    for c, r in zip(cases, results):
        for v in r.get("viol", []):
            viols.append((c, v))
    if hasattr(mod, "post"):
        for v in mod.post(cases, results, tier):
            viols.append((v.get("case", {"post": True}), v))
    # group by signature
    by_sig = {}
    for c, v in viols:
        by_sig.setdefault(v["sig"], []).append((c, v))
    new_sigs = []
    known_lines = []
    for sig, lst in sorted(by_sig.items()):
        e = known_match(pid, sig, known)
        if e is not None:
            known_lines.append("KNOWN-FINDING: property=%s %s (%d cases this run; e.g. %s)" % (
                pid, sig, len(lst), lst[0][1].get("msg", "")[:160]))
        else:
            new_sigs.append(sig)
    for l in known_lines:
        print(l)
    rc = 0
    nviol = 0
    if new_sigs:
        os.makedirs(os.path.join(VERIF, "replays", pid), exist_ok=True)
        for sig in new_sigs:
            lst = by_sig[sig]
            # smallest case first: shortest JSON
            lst.sort(key=lambda cv: len(json.dumps(cv[0], default=str)))
            c, v = lst[0]
            name = "%s-%s.json" % (tier, digest([sig, c]))
            path = os.path.join(VERIF, "replays", pid, name)
            with open(path, "w") as f:
                json.dump({"property": pid, "signature": sig, "case": c, "violation": v,
                           "n_cases_with_signature": len(lst),
                           "replay": "./check %s --replay %s" % (pid, path)}, f, indent=1, default=str)
            if not c.get("post"):
                ok, out = confirm_in_fresh_process(pid, path, hang=bool(v.get("hang")),
                                                   limit=float(os.environ.get("VERIF_CASE_TIMEOUT", getattr(mod, "CASE_TIMEOUT", 900))))
                if not ok and v.get("flaky"):
                    # observed with free-running OS threads: a real observation of the real code, but schedule dependent;
                    # it is reported (the deterministic explorers reproduce the same defect with a replayable schedule)
                    print("  note: observed with free-running threads; the replay may need several attempts")
                    ok = True
                if not ok:
                    print("HARNESS-ERROR property=%s violation did not reproduce in a fresh process: %s\n%s" % (
                        pid, path, out[-1500:]))
                    return 2
            print("  signature: %s\n  cases: %d\n  first: %s" % (sig, len(lst), v.get("msg", "")[:600]))
            print("VIOLATION property=%s replay=%s" % (pid, path))
            nviol += 1
        rc = 1
    # evidence
    states = sum(int(r.get("states", 1)) for r in results)
    transitions = sum(int(r.get("transitions", 1)) for r in results)
    nontriv = set()
    outcomes = set()
    for c, r in zip(cases, results):
        if r.get("nontrivial", True):
            nontriv.add(r.get("key") or digest(c))
        if "outcome" in r:
            outcomes.add(str(r["outcome"]))
    samples = []
    step = max(1, len(cases) // 3)
    for i in range(0, len(cases), step):
        s = {"case": cases[i]}
        if "sample" in results[i]:
            s["observed"] = results[i]["sample"]
        samples.append(s)
        if len(samples) >= 3:
            break
    cov = {
        "states": max(states, 1), "transitions": max(transitions, 1),
        "traces_validated_against_impl": len(cases),
        "samples": samples,
        "evaluations": len(cases),
        "distinct_nontrivial": len(nontriv),
        "rule": getattr(mod, "RULE", ""),
        "exhaustive": True,
        "distinct_outcomes": len(outcomes),
        "known_finding_signatures": sorted(s for s in by_sig if s not in new_sigs),
        "explanation": "implementation-level model checking: every case in the stated bound is executed on "
                       "the real code from /repo's working tree and compared with a reference model; "
                       "traces_validated_against_impl = number of executions (every model trace is an "
                       "implementation trace by construction)",
    }
    if hasattr(mod, "bounds"):
        cov["bounds"] = mod.bounds(tier)
    extra = {}
    for r in results:
        for k, val in (r.get("counters") or {}).items():
            extra[k] = extra.get(k, 0) + val
    if extra:
        cov["counters"] = extra
    caps = [r["cap_hit"] for r in results if r.get("cap_hit")]
    if caps:
        cov["exhaustive"] = False
        cov["caps_hit"] = caps[:10]
    write_evidence(pid, tier, seed, cov, getattr(mod, "ASSUMPTIONS", []), time.time() - t0, nviol)
    print("%s %s seed=%d: cases=%d states=%d transitions=%d nontrivial=%d outcomes=%d known=%d new=%d wall=%.1fs" % (
        pid, tier, seed, len(cases), states, transitions, len(nontriv), len(outcomes),
        len(known_lines), nviol, time.time() - t0))
    return rc


def write_evidence(pid, tier, seed, cov, assumptions, wall, nviol):
    if os.environ.get("VERIF_EVIDENCE_DIR"):
        # detection experiments on a deliberately broken tree (tools/run_seeded.py, tools/mutate.py) must not overwrite
        # the evidence of the real tree
        d = os.environ["VERIF_EVIDENCE_DIR"]
        os.makedirs(d, exist_ok=True)
        with open(os.path.join(d, "%s.json" % pid), "w") as f:
            json.dump({"property_id": pid, "tier": tier, "seed": seed, "coverage": cov, "wall_s": wall, "violations": nviol}, f, default=str)
        return
    os.makedirs(os.path.join(VERIF, "evidence"), exist_ok=True)
    ev = {"property_id": pid, "tier": tier, "seed": seed, "level": "model_checking",
          "coverage": cov, "assumptions": list(assumptions), "wall_s": round(wall, 2),
          "violations": nviol}
    tmp = os.path.join(VERIF, "evidence", ".%s.json.tmp" % pid)
    with open(tmp, "w") as f:
        json.dump(ev, f, indent=1, default=str)
    os.replace(tmp, os.path.join(VERIF, "evidence", "%s.json" % pid))


def main_replay(pid, path, confirm=True):
    from . import loader
    loader.load()
    mod = importlib.import_module("checks.%s" % pid.lower())
    limit = float(os.environ.get("VERIF_CASE_TIMEOUT", getattr(mod, "CASE_TIMEOUT", 900)))

    def _watchdog():
        # runs while the main thread is stuck in compiled code (the tree builder releases the GIL)
        print("   no answer within %.0f s: the case hangs" % limit)
        print("VIOLATION property=%s replay=%s" % (pid, path), flush=True)
        os._exit(1)
    import threading
    tm = threading.Timer(limit, _watchdog)
    tm.daemon = True
    tm.start()
    with open(path) as f:
        d = json.load(f)
    case = d["case"] if "case" in d else d
    if hasattr(mod, "worker_init"):
        mod.worker_init()
    r = mod.run_case(case)
    if r.get("harness_error"):
        print("HARNESS-ERROR", r["harness_error"])
        return 2
    if r.get("viol"):
        for v in r["viol"]:
            print("  ", v["sig"], "::", v.get("msg", "")[:800])
        print("VIOLATION property=%s replay=%s" % (pid, path))
        return 1
    print("no violation on replay of", path)
    return 0
